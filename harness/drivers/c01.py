"""C01 -- compiled assemblers compute exactly the integrand the variational form denotes.

spec/VFormGen.tla (Poly = TRUE) generates forms of the polynomial fragment with degree bookkeeping; spec/VFormSemRat.tla
evaluates the DENOTATION of each form exactly: abstract token semantics (VFormAbs over the rationals), B-spline jets of
BSplineRef, chain rule for the affine geometry, exact interpolatory quadrature.  The real pipeline (parse_vf -> finalize
-> code generation -> Cython/C compiler -> import -> assemble) is run for every form in a subprocess and every requested
entry compared with TLC's rational.  For the rest of the grammar (builtin functions, divisions, NURBS-free but
non-polynomial integrands) the check is build + load + assemble + finiteness + agreement of two independent routes."""
import json
import os
import random
import subprocess
from concurrent.futures import ThreadPoolExecutor
from fractions import Fraction

import numpy as np

from ..common import PY, REPO, VERIF, MachineryError, write_cfg
from .. import vf_gen

CHILD = str(VERIF / 'harness' / 'c01_child.py')

SPACES = {
    2: [dict(kvs=[[0, 0, 1, 3, 3], [0, 0, 0, 1, 2, 2, 2]], ps=[1, 2], A=[[2, 1], [0, 3]], t=[1, -2]),
        dict(kvs=[[0, 0, 0, 2, 3, 3, 3], [0, 0, 0, 1, 1, 2, 2, 2]], ps=[2, 2], A=[[1, -1], [2, 1]], t=[0, 1]),
        dict(kvs=[[0, 0, 0, 1, 3, 3, 3], [0, 0, 2, 3, 3]], ps=[2, 1], A=[[0, 2], [1, 1]], t=[-1, 0])],    # det = -2: orientation-reversing
    3: [dict(kvs=[[0, 0, 1, 2, 2], [0, 0, 0, 2, 2, 2], [0, 0, 1, 1]], ps=[1, 2, 1], A=[[1, 0, 1], [0, 2, 0], [1, 0, -1]], t=[0, 1, 2])],
}
# Petrov-Galerkin pairs on a common mesh: trial functions u in space 0, test functions v in space 1 (rows)
SPACES2 = [
    dict(kvs=[[0, 0, 1, 3, 3], [0, 0, 2, 3, 3]], ps=[1, 1],
         kvs1=[[0, 0, 0, 0, 1, 3, 3, 3, 3], [0, 0, 0, 2, 3, 3, 3]], ps1=[3, 2], A=[[2, 1], [0, 3]], t=[1, -2]),
    dict(kvs=[[0, 0, 0, 0, 1, 3, 3, 3, 3], [0, 0, 0, 2, 3, 3, 3]], ps=[3, 2],
         kvs1=[[0, 0, 1, 3, 3], [0, 0, 2, 3, 3]], ps1=[1, 1], A=[[1, -1], [2, 1]], t=[0, 1]),
    dict(kvs=[[0, 0, 1, 2, 2], [0, 0, 0, 1, 1, 2, 2, 2]], ps=[1, 2],
         kvs1=[[0, 0, 0, 1, 1, 2, 2, 2], [0, 0, 0, 0, 1, 2, 2, 2, 2]], ps1=[2, 3], A=[[0, 2], [-1, 1]], t=[-1, 0]),
]
FIXED2 = [['u', 'v', '*'], ['gu', 'gv', 'inner'], ['ux', 'v', '*'], ['f', 'val', 'u', '*', 'v', '*'], ['uxp', 'vyp', '*']]

# vector-valued basis functions: (tokens, components of u, components of v); blocked layout of the assembled matrix
FIXEDV = [
    (['uvec', 'vvec', 'inner'], 2, 2),                                  # vector mass
    (['divu', 'divv', '*'], 2, 2),                                      # div-div
    (['Gu', 'Gv', 'minner'], 2, 2),                                     # vector Laplace
    (['Gu', 'Gu', 'T', 'm+', 'Gv', 'minner'], 2, 2),                    # elasticity-type: (grad u + grad u^T) : grad v
    (['divu', 'v', '*'], 2, 1),                                         # divergence constraint (non-square blocks)
    (['ux', 'w1', '*'], 1, 2),                                          # scalar trial, vector test
    (['g', 'uvec', 'inner', 'w0', '*'], 2, 2),                          # coefficient field, single test component
    (['A', 'uvec', 'matvec', 'vvec', 'inner'], 2, 2),                   # constant matrix coefficient (non-symmetric coupling)
    (['u1', 'w0', '*', 'u0', 'w1', '*', '-'], 2, 2),                    # skew coupling of components
    (['g', 'vvec', 'inner'], 1, 2),                                     # vector load (linear form)
    (['f', 'val', 'divv', '*'], 1, 2),                                  # linear form with the divergence of the test function
]

# boundary integrals (2-D): affine maps whose columns have rational length (the surface weight |J t| must be rational);
# the second one reverses the orientation (det < 0)
SPACESB = [
    dict(kvs=[[0, 0, 1, 3, 3], [0, 0, 0, 1, 2, 2, 2]], ps=[1, 2], A=[[3, 0], [4, 2]], t=[1, -2], norms=[5, 2]),
    dict(kvs=[[0, 0, 0, 2, 3, 3, 3], [0, 0, 1, 2, 2]], ps=[2, 1], A=[[0, 3], [2, 4]], t=[0, 1], norms=[2, 5]),
]
FIXEDB = [
    ['u', 'v', '*'],                                   # boundary mass (Robin term)
    ['gu', 'nrm', 'inner', 'v', '*'],                  # normal derivative of the trial function (Nitsche)
    ['f', 'val', 'v', '*'],                            # Neumann load
    ['g', 'nrm', 'inner', 'v', '*'],                   # flux load
    ['u', 'gv', 'nrm', 'inner', '*'],                  # adjoint consistency term
    ['ux', 'vy', '*'],                                 # tangential and normal derivatives mixed
    ['A', 'gu', 'matvec', 'nrm', 'inner', 'v', '*'],   # conormal derivative
]

FIELDS = {
    2: dict(f=[[1, 2], [1, 3], [-1, 4]], f2=[[2, 1], [-1, 2], [1, 5]], h=[[1, 1], [1, 2], [-2, 3]],
            g=[[[1, 1], [1, 2], [0, 1]], [[-1, 2], [0, 1], [2, 3]]], A=[[[2, 1], [1, 2]], [[-1, 3], [3, 2]]], c=[3, 2],
            B=[[[1, 1], [2, 1]], [[-1, 2], [1, 3]], [[3, 1], [1, 1]]]),
    3: dict(f=[[1, 2], [1, 3], [-1, 4], [1, 5]], f2=[[2, 1], [-1, 2], [1, 5], [0, 1]], h=[[1, 1], [1, 2], [-2, 3], [1, 4]],
            g=[[[1, 1], [1, 2], [0, 1], [1, 3]], [[-1, 2], [0, 1], [2, 3], [0, 1]], [[0, 1], [1, 1], [0, 1], [-1, 2]]],
            A=[[[2, 1], [1, 2], [0, 1]], [[-1, 3], [3, 2], [1, 1]], [[0, 1], [1, 4], [2, 1]]], c=[3, 2],
            B=[[[1, 1], [2, 1], [0, 1]], [[-1, 2], [1, 3], [1, 1]], [[3, 1], [1, 1], [-1, 1]], [[1, 2], [0, 1], [2, 1]]]),
}

FIXED = [   # named forms of the polynomial fragment that must always be in the sample
    ['u', 'v', '*'],                                   # mass
    ['gu', 'gv', 'inner'],                             # stiffness
    ['ux', 'v', '*'],                                  # convection
    ['f', 'val', 'u', '*', 'v', '*'],                  # reaction with a linear coefficient
    ['A', 'gu', 'matvec', 'gv', 'inner'],              # anisotropic diffusion
    ['g', 'gu', 'inner', 'v', '*'],                    # convection with a linear vector field
    ['uxp', 'vyp', '*'],                               # parametric derivatives
    ['Hu', 'Hv', 'minner'],                            # biharmonic-type
    ['f', 'f2', '*D', 'dx0', 'u', '*', 'v', '*'],      # product rule on coefficient fields
    ['hpar', 'u', '*', 'vy', '*'],                     # parametric coefficient field
    ['f', 'val', 'v', '*'],                            # load vector
    ['g', 'gv', 'inner'],                              # vector load
    ['u', 'v', '*', 'c', 'two', '*', '/'],                       # division by a product of constants: u v / (c * 2)
    ['gu', 'gv', 'inner', 'c', 'c', '*', 'three', '+', '/'],    # ... by a sum: grad u . grad v / (c c + 3)
    ['three', 'c', 'half', '*', '/', 'u', '*', 'vy', '*'],      # constant quotient as a coefficient: 3 / (c/2) u v_y
    ['B', 'T', 'B', 'matmat', 'gu', 'matvec', 'gv', 'inner'],   # (B^T B) grad u . grad v: wide x tall matrix product
    ['B', 'B', 'T', 'matmat', 'tr', 'u', '*', 'v', '*'],        # tr(B B^T) u v: tall x wide
]

NONPOLY = [  # accepted by the compiler, outside the exact fragment: build + load + assemble + finite
    "sin(f)*u*v*dx", "exp(x[0])*inner(grad(u),grad(v))*dx", "sqrt(f*f+1)*u*v*dx", "u*v/(f*f+1)*dx",
    "abs(as_expr(det(jac)))*u*v*dx", "cos(x[0])*tan(x[1]/4)*u*v*dx", "log(f*f+2)*v*dx", "norm(grad(u))*v*dx",
]


def pairs_for(shape, ps, bilinear, rng):
    n = int(np.prod(shape))
    if not bilinear:
        idx = sorted(set([0, n - 1, n // 2] + [rng.randrange(n) for _ in range(4)]))
        return [[i, 0] for i in idx]
    prs = {(0, 0), (n - 1, n - 1), (0, 1), (1, 0), (n // 2, n // 2), (0, n - 1)}
    while len(prs) < 11:
        i = rng.randrange(n)
        mi = np.unravel_index(i, shape)
        mj = tuple(int(min(shape[a] - 1, max(0, mi[a] + rng.randint(-ps[a], ps[a])))) for a in range(len(shape)))
        prs.add((i, int(np.ravel_multi_index(mj, shape))))
    return [list(p) for p in sorted(prs)]


def explicit_rejection(res):
    """an explicit type / not-implemented error of the compiler (the property exempts these)"""
    if res.get('crashed'):
        return False
    err = res.get('error', '')
    kind = err.split(':')[0]
    if kind in ('TypeError', 'NotImplementedError') or (kind == 'AssertionError' and 'not implemented' in err):
        return True
    # a ValueError raised by the vform layer while the expression is being BUILT (inside parse_vf's eval, before any code
    # is generated), e.g. grad() of a bare literal: "could not automatically determine dimensions" -- the form is refused
    # with an explicit message, it is not an accepted form that fails to build
    tr = res.get('trace', '')
    return kind == 'ValueError' and 'in parse_vf' in tr and 'vf.add(eval(expr' in tr and 'codegen' not in tr and 'compile.py' not in tr


def run_child(ctx, job):
    inp = ctx.scratch / ('c01_%d_in.json' % job['id'])
    out = ctx.scratch / ('c01_%d_out.json' % job['id'])
    inp.write_text(json.dumps(job))
    env = dict(os.environ)
    env.update(PYTHONPATH=str(REPO) + ':' + str(VERIF), OMP_NUM_THREADS='1')
    env.pop('PYIGA_VERIF', None)
    r = subprocess.run([PY, CHILD, str(inp), str(out)], env=env, stdout=subprocess.DEVNULL, stderr=subprocess.PIPE,
                       text=True, timeout=2400)
    if out.exists():
        return json.loads(out.read_text()), r.returncode
    return {'id': job['id'], 'ok': False, 'error': 'interpreter exited with %s' % r.returncode,
            'trace': r.stderr[-1200:], 'crashed': True}, r.returncode


def run(ctx):
    ctx.rule = ('one case = one form compiled by the real pipeline and assembled on a tensor-product space with an affine '
                'geometry; <= 11 entries per form compared with the exact rational denotation computed by TLC; non-trivial = '
                'bilinear form with at least one derivative or coefficient field')
    ctx.assumptions = ['polynomial fragment only for the value clause (degree <= 2p+1 per direction, so the exact integral '
                       'equals the Gauss sum); affine geometries; degrees <= 2; the C compiler is real',
                       'non-polynomial forms: build/load/assemble/finite only']
    rng = random.Random(ctx.seed)
    nforms = 120 if ctx.thorough else 10
    # 1. generate
    consts = dict(Dim=2, MaxTok=3, MaxStack=3, Rich=True, Poly=True, NcU=1, NcV=1, Bnd=False)
    cfg = write_cfg(ctx.scratch / 'gen_poly3.cfg', consts, invariants=['TypeOK'])
    r1 = ctx.tlc('VFormGen', cfg, workers=4)
    consts2 = dict(Dim=2, MaxTok=9, MaxStack=3, Rich=True, Poly=True, NcU=1, NcV=1, Bnd=False)
    cfg2 = write_cfg(ctx.scratch / 'gen_polysim.cfg', consts2, invariants=['TypeOK'])
    r2 = ctx.tlc('VFormGen', cfg2, workers=4, simulate=30000 if not ctx.thorough else 120000, depth=14, seed=ctx.seed + 3)
    gen = {}
    for f in r1.recs('FORM') + r2.recs('FORM'):
        gen[tuple(f['tokens'])] = f
    pool_forms = [f for f in gen.values() if f['deg'][1] == 1]
    interesting = [f for f in pool_forms if f['bilinear'] and len(f['tokens']) >= 5]
    rng.shuffle(interesting)
    rng.shuffle(pool_forms)
    chosen = [dict(tokens=t, dim=2, bilinear=any(x in ('u', 'ux', 'uy', 'uxp', 'uxx', 'uxy', 'gu', 'gup', 'Hu') for x in t))
              for t in FIXED]
    for f in interesting[:nforms * 2 // 3] + pool_forms[:nforms]:
        if len(chosen) >= len(FIXED) + nforms:
            break
        if list(f['tokens']) not in [c['tokens'] for c in chosen]:
            chosen.append(dict(tokens=list(f['tokens']), dim=2, bilinear=f['bilinear']))
    if ctx.thorough:    # a few 3-D cases from the fixed list
        for t in FIXED[:6]:
            chosen.append(dict(tokens=t, dim=3, bilinear=True))
    # 2. cases
    cases = []
    for i, c in enumerate(chosen):
        d = c['dim']
        sp = SPACES[d][i % len(SPACES[d])]
        shape = [len(k) - p - 1 for k, p in zip(sp['kvs'], sp['ps'])]
        cases.append(dict(id=i, dim=d, kvs=sp['kvs'], ps=sp['ps'], kvs1=sp['kvs'], ps1=sp['ps'], twospace=False,
                          A=[[[x, 1] for x in row] for row in sp['A']],
                          t=[[x, 1] for x in sp['t']], tokens=c['tokens'], bilinear=c['bilinear'],
                          fields=FIELDS[d], pairs=pairs_for(shape, sp['ps'], c['bilinear'], rng), shape=shape))
    # two-space (Petrov-Galerkin) forms: u in space 0 (columns), v in space 1 (rows); the number of Gauss nodes is the
    # maximal degree over BOTH spaces + 1, which integrates these polynomial integrands exactly
    for j, t in enumerate(FIXED2 if ctx.thorough else FIXED2[:3]):
        for k, sp in enumerate(SPACES2 if ctx.thorough else SPACES2[:2]):
            if not ctx.thorough and (j + k) % 2 == 1 and j > 0:
                continue
            shape0 = [len(kk) - p - 1 for kk, p in zip(sp['kvs'], sp['ps'])]
            shape1 = [len(kk) - p - 1 for kk, p in zip(sp['kvs1'], sp['ps1'])]
            n0, n1 = int(np.prod(shape0)), int(np.prod(shape1))
            prs = {(0, 0), (n1 - 1, n0 - 1), (n1 // 2, n0 // 2), (1, 0), (0, 1), (n1 // 2, max(0, n0 // 2 - 1))}
            while len(prs) < 11:
                prs.add((rng.randrange(n1), rng.randrange(n0)))
            cases.append(dict(id=500 + 10 * j + k, dim=2, kvs=sp['kvs'], ps=sp['ps'], kvs1=sp['kvs1'], ps1=sp['ps1'],
                              twospace=True, A=[[[x, 1] for x in row] for row in sp['A']], t=[[x, 1] for x in sp['t']],
                              tokens=t, bilinear=True, fields=FIELDS[2], pairs=[list(p) for p in sorted(prs)],
                              shape=[n1, n0]))
    # vector-valued trial / test functions (blocked layout: flat index = component * N + function)
    vforms = [(t, a, b) for t, a, b in FIXEDV]
    if True:
        for nu_, nv_ in ((2, 2), (2, 1), (1, 2)):
            cv = write_cfg(ctx.scratch / ('gen_vec%d%d.cfg' % (nu_, nv_)),
                           dict(Dim=2, MaxTok=8, MaxStack=3, Rich=True, Poly=True, NcU=nu_, NcV=nv_, Bnd=False), invariants=['TypeOK'])
            rv = ctx.tlc('VFormGen', cv, workers=2, simulate=6000 if not ctx.thorough else 40000, depth=13, seed=ctx.seed + 7 + nu_ * 3 + nv_)
            cand = {tuple(f['tokens']): f for f in rv.recs('FORM') if f['deg'][1] == 1 and f['bilinear'] and len(f['tokens']) >= 4}
            cand = [cand[k] for k in sorted(cand)]
            rng.shuffle(cand)
            for f in cand[:(12 if ctx.thorough else 2)]:
                vforms.append((list(f['tokens']), nu_, nv_))
    for j, (t, nu_, nv_) in enumerate(vforms):
        sp = SPACES[2][j % len(SPACES[2])]
        shape = [len(kk) - p - 1 for kk, p in zip(sp['kvs'], sp['ps'])]
        n = int(np.prod(shape))
        bil = any(x in ('u', 'ux', 'uy', 'uxp', 'uxx', 'uxy', 'gu', 'gup', 'Hu', 'u0', 'u1', 'divu', 'uvec', 'Gu') for x in t)
        base = pairs_for(shape, sp['ps'], bil, rng)
        prs = set()
        for q, (i, jj) in enumerate(base):      # spread the entries over all component blocks
            cvv, cuu = q % nv_, (q // nv_) % nu_
            prs.add((cvv * n + i, cuu * n + jj if bil else 0))
        cases.append(dict(id=700 + j, dim=2, kvs=sp['kvs'], ps=sp['ps'], kvs1=sp['kvs'], ps1=sp['ps'], twospace=False,
                          ncu=nu_ if bil else 1, ncv=nv_, A=[[[x, 1] for x in row] for row in sp['A']],
                          t=[[x, 1] for x in sp['t']], tokens=t, bilinear=bil, fields=FIELDS[2],
                          pairs=[list(p) for p in sorted(prs)], shape=[nv_ * n, nu_ * n if bil else 1]))
    # boundary integrals: every form on all four sides, assembled one after the other in ONE process with ONE args dict
    bjobs = []
    bforms = [list(t) for t in FIXEDB]
    cb = write_cfg(ctx.scratch / 'gen_bnd.cfg', dict(Dim=2, MaxTok=8, MaxStack=3, Rich=True, Poly=True, NcU=1, NcV=1, Bnd=True),
                   invariants=['TypeOK'])
    rb = ctx.tlc('VFormGen', cb, workers=2, simulate=6000 if not ctx.thorough else 40000, depth=13, seed=ctx.seed + 19)
    cand = {tuple(f['tokens']): f for f in rb.recs('FORM') if f['deg'][1] == 1 and 'nrm' in f['tokens'] and len(f['tokens']) >= 4}
    cand = [cand[k] for k in sorted(cand)]
    rng.shuffle(cand)
    bforms += [list(f['tokens']) for f in cand[:(10 if ctx.thorough else 2)]]
    for j, t in enumerate(bforms if ctx.thorough else bforms[:len(FIXEDB) - 2] + bforms[len(FIXEDB):]):
        sp = SPACESB[j % len(SPACESB)]
        shape = [len(kk) - p - 1 for kk, p in zip(sp['kvs'], sp['ps'])]
        bil = any(x in ('u', 'ux', 'uy', 'uxp', 'uxx', 'uxy', 'gu', 'gup', 'Hu') for x in t)
        sides = [(0, 0), (0, 1), (1, 0), (1, 1)]
        sides = sides[j % 4:] + sides[:j % 4]
        if not ctx.thorough:
            sides = sides[:3]
        job = dict(id=900 + j, dim=2, kvs=sp['kvs'], ps=sp['ps'], A=[[[x, 1] for x in row] for row in sp['A']],
                   t=[[x, 1] for x in sp['t']], tokens=t, bilinear=bil, fields=FIELDS[2], sides=sides, measure='ds')
        bjobs.append(job)
        for sidx, (ax, side) in enumerate(sides):
            # boundary assembly works in the trace space: the single basis function that does not vanish on the face in
            # the normal direction times all functions of the other direction; the result is indexed by the latter
            prs = set()
            edge = 0 if side == 0 else shape[ax] - 1
            oth = 1 - ax
            nb = shape[oth]
            for _attempt in range(200):
                if len(prs) >= min(9, nb * (nb if bil else 1)):
                    break
                ib = rng.randrange(nb)
                jb = int(min(nb - 1, max(0, ib + rng.randint(-sp['ps'][oth], sp['ps'][oth])))) if bil else 0
                prs.add((ib, jb))
            bpairs = sorted(prs)

            def full(k):
                mi = [0, 0]
                mi[ax], mi[oth] = edge, k
                return int(np.ravel_multi_index(mi, shape))
            prs = [(full(ib), full(jb) if bil else 0) for ib, jb in bpairs]
            # in x-first order the fixed parameter of kv-axis ax has index 1 - ax; its face tangent is the OTHER column
            tnorm = sp['norms'][ax]      # norms[k] = length of column k of A (x-first), tangent column index = ax
            cases.append(dict(id=9000 + 10 * j + sidx, job=900 + j, sidx=sidx, dim=2, kvs=sp['kvs'], ps=sp['ps'], kvs1=sp['kvs'],
                              ps1=sp['ps'], twospace=False, A=job['A'], t=job['t'], tokens=t, bilinear=bil, fields=FIELDS[2],
                              pairs=[list(p) for p in prs], bpairs=[list(p) for p in bpairs], shape=[nb, nb if bil else 1],
                              bax=ax + 1, bside=side, tnorm=[tnorm, 1]))
    for c in cases:
        c.setdefault('ncu', 1)
        c.setdefault('ncv', 1)
        c.setdefault('bax', 0)
        c.setdefault('bside', 0)
        c.setdefault('tnorm', [1, 1])
    smoke = [dict(id=1000 + i, dim=2, kvs=SPACES[2][0]['kvs'], ps=SPACES[2][0]['ps'],
                  A=[[[x, 1] for x in row] for row in SPACES[2][0]['A']], t=[[x, 1] for x in SPACES[2][0]['t']],
                  expr=e, fields=FIELDS[2]) for i, e in enumerate(NONPOLY[:(8 if ctx.thorough else 3)])]
    # 3. real pipeline (parallel) and TLC (parallel)
    pool = ThreadPoolExecutor(14)
    futs = [pool.submit(run_child, ctx, c) for c in [c for c in cases if 'job' not in c] + smoke + bjobs]
    sem_cfg = {d: write_cfg(ctx.scratch / ('sem%d.cfg' % d), dict(DIM=d), invariants=['Verdict']) for d in (2, 3)}

    def sem(chunk_id, chunk):
        f = ctx.scratch / ('sem_%d.json' % chunk_id)
        f.write_text(json.dumps({'cases': chunk}))
        res = ctx.tlc('VFormSemRat', sem_cfg[chunk[0]['dim']], workers=min(4, len(chunk)), env={'SEM_FILE': str(f)}, timeout=3000)
        return res.recs('SEM')
    nchunk = 4 if not ctx.thorough else 16
    chunks = []
    for d in (2, 3):
        cd = [c for c in cases if c['dim'] == d]
        chunks += [cd[i::nchunk] for i in range(nchunk) if cd[i::nchunk]]
    sfuts = [pool.submit(sem, i, ch) for i, ch in enumerate(chunks)]
    expected = {}
    for f in sfuts:
        for rec in f.result():
            expected[rec['id']] = [Fraction(v[0], v[1]) for v in rec['vals']]
    if len(expected) != len(cases):
        raise MachineryError('VFormSemRat returned %d of %d cases' % (len(expected), len(cases)))
    results = {}
    for f in futs:
        res, rc = f.result()
        results[res['id']] = res
    # 4. compare
    for c in cases:
        if 'job' in c:        # one side of a boundary job
            res = dict(results[c['job']])
            if res.get('ok'):
                res['data'] = res['sides'][c['sidx']]
        else:
            res = results[c['id']]
        lab = vf_gen.render(c['tokens'], 'ds' if 'job' in c else 'dx') + ' [dim %d, degrees %s]' % (c['dim'], c['ps'])
        if 'job' in c:
            lab += ' [boundary axis %d side %d, side number %d with the same args dict]' % (c['bax'] - 1, c['bside'], c['sidx'] + 1)
        if c['ncu'] > 1 or c['ncv'] > 1:
            lab += ' [components u:%d v:%d]' % (c['ncu'], c['ncv'])
        if c['twospace']:
            lab += ' [two spaces: test degrees %s %s trial degrees]' % (c['ps1'], '>' if max(c['ps1']) > max(c['ps']) else '<=')
        nontriv = c['bilinear'] and len(c['tokens']) > 3
        if not res.get('ok'):
            kind = 'interpreter-crashed' if res.get('crashed') else 'build-load-assemble-failed'
            if explicit_rejection(res):
                ctx.skip('explicitly rejected by the compiler: %s (%s)' % (lab, res['error'][:80]))
                continue
            ctx.violation('%s form=%s' % (kind, lab), {'error': res.get('error'), 'trace': res.get('trace')})
            ctx.case(c['id'], nontrivial=nontriv)
            continue
        M = np.array(res['data']).reshape(c['shape'] if 'job' in c else res['shape'])
        exp = expected[c['id']]
        worst = 0.0
        bad = None
        scale = max(1.0, float(np.abs(M).max()))
        for (i, j), q in zip(c.get('bpairs', c['pairs']), exp):
            got = M[i, j] if c['bilinear'] else M.ravel()[i]
            err = abs(got - float(q))
            worst = max(worst, err)
            if err > 1e-10 * scale and bad is None:
                bad = dict(entry=[i, j], got=float(got), expected=[q.numerator, q.denominator])
        ctx.case(c['id'], nontrivial=nontriv,
                 sample={'form': lab, 'entries_compared': len(exp), 'max_abs_error': worst,
                         'example_expected': str(exp[len(exp) // 2])} if len(ctx.samples) < 5 and nontriv else None)
        if bad:
            ctx.violation('entry-differs-from-denotation form=' + lab, bad)
    for s in smoke:
        res = results[s['id']]
        ctx.case(s['id'], nontrivial=False)
        if not res.get('ok'):
            if explicit_rejection(res):
                ctx.skip('explicitly rejected: ' + s['expr'])
                continue
            ctx.violation('%s form=%s' % ('interpreter-crashed' if res.get('crashed') else 'build-load-assemble-failed', s['expr']),
                          {'error': res.get('error'), 'trace': res.get('trace')})
        elif not res.get('finite'):
            ctx.violation('non-finite-entries form=' + s['expr'], {})
    pool.shutdown()
