"""C18 -- low-rank tensor formats: spec/TensorAlg.tla (state machine on dense integer tensors + code-shaped
representations) explored by TLC; every emitted history is replayed on the real pyiga classes (M1) and after
every step asarray()/norm()/shape/ravel are compared with the tensor the specification expects.
spec/TensorAlgNum.tla chooses the inputs of the numeric predicates (harness/c18_num.py)."""
import json
import multiprocessing
import os
import subprocess
import zlib
from concurrent.futures import ThreadPoolExecutor

from ..common import PY, VERIF, MachineryError, repo_env, write_cfg

INVS = ['RepOK', 'ShapeOK', 'CanNormOK']


def _cfg(ctx, name, **kw):
    c = dict(Mode='bfs', MaxLen=1, Orders=frozenset(), OpDims=frozenset(), Alpha='tiny', NSeeds=1, NInit=1,
             Salt=1 + ctx.seed % 200, Legacy=False)
    c.update(kw)
    return write_cfg(ctx.scratch / ('ta_%s.cfg' % name), c, invariants=INVS, view='View')


def plan(ctx):
    """(name, cfg constants, tlc kwargs)"""
    runs = []

    def bfs(name, workers=2, **kw):
        runs.append((name, dict(Mode='bfs', **kw), dict(workers=workers)))

    def sim(name, num, workers=2, **kw):
        kw.setdefault('MaxLen', 8)
        runs.append((name, dict(Mode='sim', Alpha='seed', **kw),
                     dict(workers=workers, simulate=num, depth=kw['MaxLen'] + 4, seed=ctx.seed + 11)))
    allo = frozenset({1, 2, 3, 4})
    if not ctx.thorough:
        bfs('bfs2-o1', MaxLen=2, Orders=frozenset({1}), Alpha='tiny')
        bfs('bfs1-o1-full', MaxLen=1, Orders=frozenset({1}), Alpha='full')
        bfs('bfs1-o234', MaxLen=1, Orders=frozenset({2, 3, 4}), Alpha='tiny')
        bfs('bfs2-op', MaxLen=2, OpDims=frozenset({1, 2}), Alpha='tiny')
        sim('sim-t', 250, Orders=allo, NSeeds=1, NInit=1)
        sim('sim-op', 60, OpDims=frozenset({1, 2, 3}), NSeeds=1, NInit=2, MaxLen=6)
    else:
        bfs('bfs2-o1', MaxLen=2, Orders=frozenset({1}), Alpha='small', NInit=2)
        bfs('bfs2-o2', MaxLen=2, Orders=frozenset({2}), Alpha='tiny', workers=4)
        bfs('bfs1-o12-full', MaxLen=1, Orders=frozenset({1, 2}), Alpha='full', workers=3)
        bfs('bfs1-o3-small', MaxLen=1, Orders=frozenset({3}), Alpha='small', workers=3)
        bfs('bfs1-o4', MaxLen=1, Orders=frozenset({4}), Alpha='tiny', NInit=2)
        bfs('bfs2-op', MaxLen=2, OpDims=frozenset({1, 2, 3}), Alpha='tiny', NInit=2, workers=3)
        for k in range(4):
            sim('sim-t%d' % k, 300, Orders=allo, NSeeds=1, NInit=2, workers=4, Salt=1 + (ctx.seed + 37 * k) % 200)
        sim('sim-op', 200, OpDims=frozenset({1, 2, 3}), NSeeds=1, NInit=3, MaxLen=6, workers=3)
    return runs


# ------------------------------------------------------------------------------------------------
# replay in worker processes

def _key(h):
    return zlib.crc32(json.dumps([[s['a'], s.get('args'), s['sh']] for s in h], sort_keys=True).encode())


def _nontrivial(h):
    steps = len(h) - 1
    if steps >= 2:
        return True
    return steps == 1 and (len(h[0]['sh']) >= 2 or h[1]['a'] in ('GetItem', 'NwayProd', 'ApplyOp', 'OpApply', 'Compose'))


def _replay_chunk(chunk):
    from .. import c18_replay as R
    out = []
    for h in chunk:
        h = [s for s in h if s['a'] != 'Done']
        try:
            n = R.replay(h)
            out.append((_key(h), _nontrivial(h), n, None, None))
        except R.Mismatch as m:
            out.append((_key(h), _nontrivial(h), 0, m.signature, m.detail))
    return out


def replay_all(pool, hists):
    """replay in the shared worker pool; returns the per-history results"""
    chunks = [hists[i:i + 200] for i in range(0, len(hists), 200)]
    out = []
    for r in pool.map(_replay_chunk, chunks):
        out += r
    return out


# ------------------------------------------------------------------------------------------------
# numeric predicates

def numeric(ctx, found):
    ncase = 400 if ctx.thorough else 50
    fams = ['tucker', 'aca', 'aca3d', 'greedy']
    cfg = write_cfg(ctx.scratch / 'num_all.cfg', dict(Family='all', NCase=ncase, Salt=1 + ctx.seed % 200),
                    invariants=['WellFormed', 'EmitCase'])
    res = ctx.tlc('TensorAlgNum', cfg, workers=2, timeout=1800)
    cases = res.recs('NUM')
    for fam in fams:
        if not any(c['fam'] == fam for c in cases):
            raise MachineryError('TensorAlgNum produced no case for family %s' % fam)
    inp = ctx.scratch / 'num_cases.jsonl'
    out = ctx.scratch / 'num_out.jsonl'
    inp.write_text(''.join(json.dumps(c) + '\n' for c in cases))
    env = repo_env(PYIGA_REPO=os.environ.get('PYIGA_REPO', '/repo'))
    try:
        p = subprocess.run([PY, '-W', 'ignore', '-m', 'harness.c18_num', str(inp), str(out), str(ctx.seed)],
                           cwd=VERIF, env=env, stdout=subprocess.PIPE, stderr=subprocess.STDOUT, text=True,
                           timeout=60 + 35 * len(cases))
    except subprocess.TimeoutExpired:
        raise MachineryError('numeric worker exceeded its time budget')
    done = {}
    started = []
    if out.exists():
        for line in out.read_text().splitlines():
            r = json.loads(line)
            if r.get('start'):
                started.append((r['fam'], r['q']))
            else:
                done[(r['fam'], r['q'])] = r
    if p.returncode != 0 and len(done) < len(cases):
        # the interpreter died inside a case: that case is a violation, the rest is reported as skipped
        dead = [k for k in started if k not in done]
        for k in dead[-1:]:
            found.setdefault('interpreter-died fam=%s' % k[0], [0, {'case': k, 'output': p.stdout[-1500:]}])[0] += 1
        ctx.skip('numeric worker stopped after %d of %d cases (rc=%s)' % (len(done), len(cases), p.returncode))
    checks = 0
    for (fam, q), r in done.items():
        ctx.case(('num', fam, q), nontrivial=True,
                 sample={'numeric predicate on spec-generated case': [fam, q]} if q == 1 else None)
        checks += r['checks']
        for sig, detail in r['viol']:
            f = found.setdefault('numeric ' + sig, [0, detail])
            f[0] += 1
    ctx.notes['numeric_predicates'] = {
        'label': 'numeric predicate on spec-generated cases', 'cases': len(done), 'predicate_evaluations': checks,
        'families': {f: sum(1 for k in done if k[0] == f) for f in fams}}


def run(ctx):
    ctx.rule = ('TLC explores spec/TensorAlg.tla: breadth-first over every history of length <= 2 (<= 1 with the '
                'full per-axis index alphabet) and -simulate for histories of length <= 8 (operators: <= 6); one '
                'case = one history replayed on the real classes with asarray/norm/shape/ravel/kind compared after '
                'every step and TensorGenerator.__getitem__ checked on every index expression; non-trivial = at '
                'least 2 steps, or 1 argument-carrying step / a tensor of order >= 2; numeric cases: one per '
                '(shape, rank, scaling decades, tolerance decade) chosen by spec/TensorAlgNum.tla')
    ctx.assumptions = [
        'entries are small integers, so float arithmetic of the canonical/sum/prod/operator formats is exact and '
        'compared with ==; after orthogonalize() the tolerance is 1e-10 * max|entry|',
        'index expressions contain at most one index list (orthogonal and numpy readings coincide; with ndarray '
        'leaves additionally the advanced indices are adjacent)',
        'operand/argument values are pseudo-random functions of a TLC-chosen seed (hash defined in the spec)',
        'CanonicalOperator terms are scipy csr/csc matrices (asmatrix() needs sparse terms)',
        'tolerance/orthonormality/exact-recovery/error-history predicates are floating-point predicates '
        'evaluated by the harness on spec-chosen inputs, not decided by TLC']
    runs = plan(ctx)
    pool = multiprocessing.get_context('fork').Pool(8)      # created before any thread exists

    def one(item):
        name, consts, kw = item
        cfg = _cfg(ctx, name, **consts)
        res = ctx.tlc('TensorAlg', cfg, timeout=3600, **kw)
        hs = res.recs('H')
        if not hs:
            raise MachineryError('TensorAlg %s emitted no history' % name)
        return name, hs, replay_all(pool, hs)

    def legacy():
        # negative control: squeeze() as shipped (negative axes not normalised) breaks the homomorphism in the model
        cfg = _cfg(ctx, 'legacy', Mode='bfs', MaxLen=1, Orders=frozenset({2}), Alpha='tiny', Legacy=True)
        ctx.expect_violation('TensorAlg', cfg, workers=2)

    found = {}
    total_steps = 0
    try:
        with ThreadPoolExecutor(8) as ex:
            fnum = ex.submit(numeric, ctx, found)
            fleg = ex.submit(legacy)
            futs = [ex.submit(one, r) for r in runs]
            results = [f.result() for f in futs]
            fleg.result()
            fnum.result()
    finally:
        pool.terminate()

    lens = {}
    for name, hs, rs in results:
        n = 0
        for key, nontriv, k, sig, detail in rs:
            ctx.case(key, nontrivial=nontriv)
            n += k
            if sig is not None:
                f = found.setdefault(sig, [0, detail])
                f[0] += 1
        total_steps += n
        for h in hs:
            L = sum(1 for s in h if s['a'] not in ('Init', 'Done'))
            lens[L] = lens.get(L, 0) + 1
        mid = [s for s in hs[len(hs) // 2] if s['a'] != 'Done']
        if len(ctx.samples) < 5:
            ctx.samples.append({'run': name, 'init': mid[0]['kind'], 'shape': mid[0]['sh'],
                                'steps': [[s['a'], s['kind'], s['sh']] for s in mid[1:]]})
        print('[replay] %s: %d histories, %d steps' % (name, len(hs), n), flush=True)
    ctx.notes['history_lengths'] = {str(k): v for k, v in sorted(lens.items())}
    ctx.notes['steps_replayed'] = total_steps

    for sig in sorted(found):
        cnt, detail = found[sig]
        if isinstance(detail, dict):
            detail = dict(detail)
            detail['occurrences'] = cnt
        ctx.violation(sig, detail)
    ctx.exhaustive = False
