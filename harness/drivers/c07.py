"""C07 -- geometry maps evaluate consistently on every route and constructions are exact.

spec/GeoFunc.tla       exact reference (EXTENDS BSplineRef): geometry object = knot vectors + rational control net (+ weights);
                       values, Jacobians (x-last axis order, column b = d/d coordinate b) and packed Hessians on tensor grids;
                       NURBS by the Leibniz rule applied to G w = N; the operations and constructors as operations on control
                       nets (Build(recipe)); circular arcs with Pythagorean opening angles; polynomial user functions.
spec/GeoFuncCases.tla  one TLC state per case (recipe over constructors/operations, families base/unary/binary/ctor); TLC checks
                       the control-net model of the top-level operation against its declarative meaning (invariant CaseOK;
                       circles: x^2+y^2 = r^2, end-point and knot angles, monotone angle -- exactly) and emits the sheet.
spec/GeoFuncComp.tla   user-defined (polynomial) functions, compositions geo2 o geo1 (chain rule), physical gradients J^-T grad u.
spec/GeoFuncOps.tla    state machine "no operation alters an existing object": state = live objects (control nets), actions =
                       the operations, action property OperandsUnchanged; every transition is replayed on real objects with
                       byte fingerprints (knots, coefficients, support override) of ALL live objects before/after.
spec/GeoFuncNamed.tla  named shapes with irrational data: spec-generated cases + predicates evaluated numerically here.
This driver rebuilds every recipe with the real public API (M1) and replays every evaluation route: geo(x,y,z), grid_eval,
utils.grid_eval, grid_jacobian, grid_hessian, pointwise_eval, pointwise_jacobian, boundary(name | (axis, side)) recursively,
boundary with restricted support (_BoundaryFunction), UserFunction, ComposedFunction, PhysicalGradientFunc."""
import itertools
import math
from concurrent.futures import ThreadPoolExecutor
from fractions import Fraction

import numpy as np

from ..common import MachineryError, SPEC, TLCResult, frac, parse_tlc_output, write_cfg

TOL = 1e-11


def tlc(ctx, module, cfg, **kw):
    """ctx.tlc; with C07_TLC_CACHE=<dir> (development aid for mutation runs: the TLC output does not depend on the
    tree under test) the stdout of an identical run (same specs, same cfg, same options) is reused"""
    import hashlib
    import os
    cache = os.environ.get('C07_TLC_CACHE')
    kw.setdefault('env', {'JAVA_TOOL_OPTIONS': '-XX:ParallelGCThreads=3'})   # many JVMs run side by side
    if not cache:
        return ctx.tlc(module, cfg, **kw)
    h = hashlib.sha1()
    for f in sorted(SPEC.glob('GeoFunc*.tla')) + [SPEC / 'BSplineRef.tla', SPEC / 'Rat.tla', SPEC / 'Emit.tla']:
        h.update(f.read_bytes())
    h.update(open(cfg, 'rb').read())
    h.update(repr((module, sorted((k, v) for k, v in kw.items() if k not in ('timeout', 'must_pass', 'workers', 'env')))).encode())
    path = os.path.join(cache, h.hexdigest() + '.out')
    if os.path.exists(path):
        res = TLCResult()
        res.stdout = open(path).read()
        parse_tlc_output(res.stdout, res)
        ctx.states += res.distinct
        ctx.transitions += res.generated
        ctx.tlc_runs.append({'module': module, 'cfg': str(cfg), 'generated': res.generated, 'distinct': res.distinct, 'ok': res.ok,
                             'violated': res.violated, 'wall_s': 0.0, 'records': {k: len(v) for k, v in res.records.items()},
                             'cached': True})
        return res
    res = ctx.tlc(module, cfg, **kw)
    os.makedirs(cache, exist_ok=True)
    open(path, 'w').write(res.stdout)
    return res


# ----------------------------------------------------------------------------------
class Agg:
    """violations aggregated per signature (first failing input kept as detail)"""

    def __init__(self, ctx):
        self.ctx = ctx
        self.v = {}

    def add(self, sig, **detail):
        e = self.v.get(sig)
        if e is None:
            self.v[sig] = {'count': 1, 'first': detail}
        else:
            e['count'] += 1

    def flush(self):
        import json, os
        if os.environ.get('C07_DUMP'):
            open(os.environ['C07_DUMP'], 'w').write(json.dumps(self.v, indent=1, default=str))
        for sig, e in sorted(self.v.items()):
            new = self.ctx.violation(sig, e)
            print('[c07] %s x%d: %s' % ('VIOLATION' if new else 'known', e['count'], sig), flush=True)


def fr(x):
    return float(frac(x))


def farr(x):
    """nested lists of [n,d] -> float array (the innermost pairs are rationals)"""
    a = np.array(x, dtype=object)
    if a.size == 0:
        return np.zeros(a.shape[:-1] if a.ndim and a.shape[-1] == 2 else a.shape)
    a = np.array(x, dtype=float)
    return a[..., 0] / a[..., 1]


def bad(X, E, scale, tol=TOL):
    X = np.asarray(X, dtype=float)
    E = np.asarray(E, dtype=float)
    s = np.maximum(np.maximum(1.0, np.abs(E)), scale)
    with np.errstate(invalid='ignore'):
        return ~(np.abs(X - E) <= tol * s)


def shape_class(osh):
    return {0: 'scalar', 1: 'vector', 2: 'matrix'}[len(osh)]


# ----------------------------------------------------------------------------------
# abstract object / recipe -> real pyiga objects

def real_kvs(o):
    from pyiga import bspline
    return tuple(bspline.KnotVector(np.array(kv, dtype=float) / den, p) for kv, den, p in zip(o['kvs'], o['dens'], o['ps']))


def obj_arrays(o):
    """(shape N, coefficient array N+osh of the (premultiplied) coefficients, weights N or None)"""
    N = tuple(len(kv) - p - 1 for kv, p in zip(o['kvs'], o['ps']))
    osh = tuple(o['osh'])
    C = farr(o['C'])                                 # (nc, NN)
    coeffs = C.T.reshape(N + osh)
    W = farr(o['W']).reshape(N) if o['kind'] == 'nurbs' else None
    return N, coeffs, W


def build_obj(o, variant=0):
    """real object from an explicit control net, through the public constructors"""
    from pyiga import bspline, geometry
    kvs = real_kvs(o)
    N, coeffs, W = obj_arrays(o)
    if len(kvs) == 1 and variant % 2 == 1:
        kvs = kvs[0]                                 # a single KnotVector is accepted in place of a 1-tuple
    def maybe_int(a):
        # control points that happen to be whole numbers are often typed in as integers
        return a.astype(np.int64) if variant % 3 == 1 and a.size and np.all(a == np.round(a)) else a
    if o['kind'] == 'bsp':
        if variant % 3 == 2 and not o['osh']:
            coeffs = coeffs.ravel()                  # flat coefficient vector (documented convenience)
        return bspline.BSplineFunc(kvs, maybe_int(coeffs))
    osh = tuple(o['osh'])
    if variant % 2 == 0:
        return geometry.NurbsFunc(kvs, coeffs.copy(), W.copy(), premultiplied=True)
    P = coeffs / (W.reshape(N + (1,) * len(osh)))    # control points; the constructor premultiplies
    if variant % 4 == 3 and osh:
        return geometry.NurbsFunc(kvs, maybe_int(np.concatenate((P, W[..., None]), axis=-1)), None)
    return geometry.NurbsFunc(kvs, P, W.copy())


def rat_arg(arg, scalar):
    v = [fr(x) for x in arg]
    return v[0] if (scalar and len(v) == 1) else np.array(v)


class Built:
    """result of a recipe plus every operand object created on the way (for the immutability check)"""

    def __init__(self):
        self.operands = []


def build(r, B, variant=0):
    """evaluate a recipe with the real API; operands of every operation are recorded in B.operands"""
    from pyiga import bspline, geometry
    op = r['op']
    if op == '__pre':
        return r['v']
    if op == 'obj':
        return build_obj(r['obj'], variant)
    if op in ('line', 'unitcube', 'unitsquare', 'identity', 'arc'):
        return build_ctor(r)
    a = build(r['a'], B, variant)
    B.operands.append(a)
    if op == 'translate':
        return a.translate(rat_arg(r['arg'], r.get('sc', True)))
    if op == 'scale':
        return a.scale(rat_arg(r['arg'], r.get('sc', True)))
    if op == 'matrix':
        return a.apply_matrix(farr(r['A']))
    if op == 'rotate':
        return a.rotate_2d(math.atan2(fr(r['cs'][1]), fr(r['cs'][0])))
    if op in ('getint', 'getlist'):
        # the model selects components by explicit non-negative indices; the driver writes the same selection in all
        # the ways Python indexing allows (negative indices, open-ended and reversed slices)
        osh = a.output_shape()
        nc = int(osh[0]) if len(osh) else 1
    if op == 'getint':
        return a[r['i'] - nc] if variant % 2 == 1 else a[r['i']]
    if op == 'getlist':
        ix = list(r['is'])
        if ix == list(range(nc)):
            return a[:] if variant % 2 == 0 else a[-nc:]
        if ix == list(range(ix[0], nc)):
            return a[ix[0]:] if variant % 2 == 0 else a[ix[0] - nc:]
        if ix == list(range(nc - 1, -1, -1)):
            return a[::-1]
        if ix == list(range(ix[0], ix[-1] + 1)):
            return a[ix[0]:ix[-1] + 1]
        return a[[i - nc for i in ix]] if variant % 2 == 1 else a[ix]
    if op == 'asnurbs':
        return a.as_nurbs()
    if op == 'asvector':
        return a.as_vector()
    if op == 'copy':
        return a.copy()
    if op == 'boundary':
        if r.get('byname'):
            return a.boundary(BDNAME[(a.sdim, r['ax'], r['side'])])
        return a.boundary((r['ax'], r['side']))
    if op == 'cyl':
        return a.cylinderize(fr(r['z0']), fr(r['z1']), support=(fr(r['s0']), fr(r['s1'])))
    b = build(r['b'], B, variant)
    B.operands.append(b)
    if op == 'tp':
        return geometry.tensor_product(a, b)
    if op == 'osum':
        return geometry.outer_sum(a, b)
    if op == 'oprod':
        return geometry.outer_product(a, b)
    raise MachineryError('unknown recipe op %r' % op)


def build_ctor(r):
    from pyiga import bspline, geometry
    op = r['op']
    if op == 'line':
        x0 = [fr(x) for x in r['x0']]
        x1 = [fr(x) for x in r['x1']]
        if r.get('sc') and len(x0) == 1:
            x0, x1 = x0[0], x1[0]
        kw = {}
        if not (r.get('defsup') and frac(r['s0']) == 0 and frac(r['s1']) == 1):
            kw['support'] = (fr(r['s0']), fr(r['s1']))
        if r['n'] != 1 or r.get('sc'):
            kw['intervals'] = r['n']
        return geometry.line_segment(x0, x1, **kw)
    if op == 'unitcube':
        if r.get('square'):
            return geometry.unit_square(num_intervals=r['n']) if r['n'] != 1 else geometry.unit_square()
        return geometry.unit_cube(dim=r['dim'], num_intervals=r['n'])
    if op == 'identity':
        ext = []
        for k, e in enumerate(r['ext']):
            lo, hi = fr(e[0]), fr(e[1])
            if r.get('askv') and k % 2 == 0:
                ext.append(bspline.make_knots(2, lo, hi, 3))       # only the support of a KnotVector is used
            else:
                ext.append((lo, hi))
        return geometry.identity(ext)
    if op == 'arc':
        m = r['m']
        alpha = 2 * m * math.atan2(fr(r['cs'][1]), fr(r['cs'][0]))
        rad = fr(r['r'])
        f = {1: geometry.circular_arc_3pt, 2: geometry.circular_arc_5pt, 3: geometry.circular_arc_7pt}[m]
        if r.get('auto'):
            f = geometry.circular_arc
        return f(alpha, rad) if (rad != 1.0 or r.get('auto')) else f(alpha)
    raise MachineryError('unknown constructor %r' % op)


BDNAME = {}
for _d in (1, 2, 3):
    for _k, (_lo, _hi) in enumerate((('left', 'right'), ('bottom', 'top'), ('front', 'back'))):
        if _k < _d:
            BDNAME[(_d, _d - 1 - _k, 0)] = _lo
            BDNAME[(_d, _d - 1 - _k, 1)] = _hi


def recipe_str(r):
    op = r['op']
    if op == 'obj':
        o = r['obj']
        return '%s[sdim=%d,%s]' % (o['kind'], len(o['kvs']), shape_class(o['osh']))
    if op in ('line', 'unitcube', 'identity', 'arc'):
        return op
    if 'b' in r:
        return '%s(%s,%s)' % (op, recipe_str(r['a']), recipe_str(r['b']))
    return '%s(%s)' % (op, recipe_str(r['a']))


# ----------------------------------------------------------------------------------
# fingerprints (the state of an object as far as the property is concerned)

def fingerprint(G):
    parts = []
    for kv in getattr(G, 'kvs', ()):
        parts.append((kv.p, np.asarray(kv.kv).tobytes()))
    c = getattr(G, 'coeffs', None)
    if c is not None:
        parts.append((np.asarray(c).shape, np.ascontiguousarray(c).tobytes()))
    s = getattr(G, '_support_override', None)
    parts.append(repr(s))
    return tuple(parts)


# ----------------------------------------------------------------------------------
# expected sheets

class Sheet:
    """exact values / Jacobians / Hessians of the spec on a tensor grid, as float arrays in the library's layout"""

    def __init__(self, grid, osh, V, J, H):
        self.grid = grid                    # list of 1D arrays, axis order
        self.osh = tuple(osh)
        self.V, self.J, self.H = V, J, H    # gs+osh, gs+osh+(D,), gs+osh+(nh,)
        self.D = len(grid)
        self.gs = tuple(len(g) for g in grid)
        m = [1.0] + [float(np.abs(a).max()) for a in (V, J, H) if a is not None and a.size]
        self.scale = 4.0 * max(m)

    @staticmethod
    def from_rec(rec):
        grid = [np.array([fr(x) for x in ax]) for ax in rec['grid']]
        gs = tuple(len(g) for g in grid)
        osh = tuple(rec['res']['osh'])
        D = len(grid)
        V = farr(rec['val'])                                    # (nc, npts)
        nc = V.shape[0]
        V = V.T.reshape(gs + osh)
        J = farr(rec['jac']) if D else np.zeros((0, nc, V.size // max(nc, 1)))     # (D, nc, npts)
        J = np.transpose(J, (2, 1, 0)).reshape(gs + osh + (D,))
        if rec['hess']:
            H = farr(rec['hess'])                               # (nh, nc, npts)
            H = np.transpose(H, (2, 1, 0)).reshape(gs + osh + (H.shape[0],))
        else:
            H = None                                            # Hessian not computed by the spec for this case
        return Sheet(grid, osh, V, J, H)

    def face(self, ax, idx):
        """the sheet of the restriction to grid index idx of axis ax: normal derivatives dropped"""
        D = self.D
        bn = D - 1 - ax                       # 0-based normal coordinate
        keep = [b for b in range(D) if b != bn]
        V = np.take(self.V, idx, axis=ax)
        J = np.take(self.J, idx, axis=ax)[..., keep]
        pairs = [(a, b) for a in range(D) for b in range(a, D)]
        hk = [h for h, (a, b) in enumerate(pairs) if a != bn and b != bn]
        H = np.take(self.H, idx, axis=ax)[..., hk] if self.H is not None else None
        if D == 1:
            H = None
        g = [x for k, x in enumerate(self.grid) if k != ax]
        sh = Sheet(g, self.osh, V, J, H)
        sh.scale = self.scale
        sh.Jfull = np.take(self.J, idx, axis=ax)      # with the normal derivative (keep_normal=True)
        return sh


# ----------------------------------------------------------------------------------
# the battery of evaluation routes

OBJ_FAILED = {}      # (class name, shape class, sdim) -> routes that fail on explicit control nets (family "base")


class Battery:
    record = False       # True for the family of explicit control nets: failures are object-level, not operation-level

    def __init__(self, ctx, agg, tag, info, failed=None, prefix=''):
        self.ctx, self.agg, self.tag, self.info = ctx, agg, tag, info
        self.failed = set(failed or ())        # routes that already failed on the parent object: not repeated on faces
        self.prefix = prefix                   # 'boundary().' for routes evaluated on a face object
        self.squeeze_ok = False                # a singleton-axis difference was already reported for this object

    def viol(self, route, what, **kw):
        d = dict(self.info)
        d.update(kw)
        self.failed.add(route.split(' sdim=')[0])
        if self.record and getattr(self, 'key', None):
            OBJ_FAILED.setdefault(self.key, set()).add(route.split(' sdim=')[0])
        pre = '' if route.startswith('boundary(') else self.prefix
        self.agg.add('%s %s%s: %s' % (self.tag, pre, route, what), **d)

    def guarded(self, route, f):
        if route in self.failed:
            return None
        try:
            return f()
        except Exception as ex:                                   # the real code raised on a valid input
            self.viol(route, 'exception %s' % type(ex).__name__, error=repr(ex)[:300])
            return None

    def cmp(self, route, X, E, scale, sdim=None):
        """compare an array returned by the real code with the expected one"""
        try:
            X = np.asarray(X, dtype=float)
        except Exception:
            self.viol(route, 'result is not a numeric array', got=repr(X)[:200])
            return False
        E = np.asarray(E, dtype=float)
        if X.shape != E.shape:
            if X.size == E.size and tuple(s for s in X.shape if s != 1) == tuple(s for s in E.shape if s != 1):
                if not self.squeeze_ok:
                    self.viol(route, 'wrong shape (singleton axis)', got=list(X.shape), expected=list(E.shape))
                X = X.reshape(E.shape)
            else:
                self.viol(route, 'wrong shape', got=list(X.shape), expected=list(E.shape))
                return False
        b = bad(X, E, scale)
        if b.any():
            ix = tuple(int(t) for t in np.argwhere(b)[0]) if b.ndim else ()
            self.viol(route + ('' if sdim is None else ' sdim=%d' % sdim), 'value mismatch', index=list(ix),
                      got=float(X[ix]), expected=float(E[ix]), nbad=int(b.sum()), of=int(b.size))
            return False
        return True


def check_object(bt, G, sh, desc, depth=0, hess=True, pointwise=True):
    """every evaluation route of a spline-like object G against the sheet sh.  desc: kind ('bsp'|'nurbs'|other), osh"""
    from pyiga import utils
    D = sh.D
    osh = sh.osh
    sc = sh.scale
    grid = sh.grid
    g = bt.guarded
    bt.key = (type(G).__name__, shape_class(osh), D)
    if not bt.record:
        # routes already known to fail on every object of this class/shape/dimension are object-level defects:
        # reported once (family "base"), not again for every operation that returns such an object
        bt.failed |= OBJ_FAILED.get(bt.key, set()) - {'attributes'}
    known_attr = (not bt.record) and bool(bt.prefix) and 'attributes' in OBJ_FAILED.get(bt.key, ())

    # -- attributes --------------------------------------------------------------------------------
    def attrs():
        out = {}
        if G.sdim != D:
            out['sdim'] = (G.sdim, D)
        edim = 1 if len(osh) == 0 else (osh[0] if len(osh) == 1 else tuple(osh))
        if G.dim != edim:
            out['dim'] = (G.dim, edim)
        if tuple(G.output_shape()) != osh:
            out['output_shape'] = (tuple(G.output_shape()), osh)
        if G.is_scalar() != (len(osh) == 0) or G.is_vector() != (len(osh) == 1):
            out['is_scalar/is_vector'] = (G.is_scalar(), G.is_vector())
        return out
    r = g('attributes', attrs)
    if r:
        shp = r.get('output_shape')
        if shp is not None and {shp[0], shp[1]} == {(), (1,)}:
            # scalar <-> 1-vector: reported once; values are then compared modulo the singleton axis
            if not bt.squeeze_ok and not known_attr:
                bt.viol('attributes', 'output shape %s instead of %s' % (shp[0], shp[1]))
            bt.squeeze_ok = True
        else:
            for k, v in r.items():
                bt.viol('attributes', 'wrong %s' % k, got=repr(v[0]), expected=repr(v[1]))
    if desc.get('support') is not None:
        s = g('support', lambda: np.array([[float(lo), float(hi)] for lo, hi in G.support]))
        if s is not None:
            E = np.array(desc['support'], dtype=float).reshape(-1, 2)
            s = s.reshape(-1, 2)
            if s.shape != E.shape or (np.abs(s - E) > 1e-12).any():
                bt.viol('support', 'wrong support', got=s.tolist(), expected=E.tolist())

    if D == 0:
        X = g('grid_eval', lambda: G.grid_eval([]))
        if X is not None:
            bt.cmp('grid_eval', X, sh.V, sc, D)
        X = g('__call__', lambda: G())
        if X is not None:
            bt.cmp('__call__', X, sh.V, sc, D)
        return

    # -- tensor grid routes --------------------------------------------------------------------------
    X = g('grid_eval', lambda: G.grid_eval(grid))
    if X is not None:
        bt.cmp('grid_eval', X, sh.V, sc, D)
    X = g('utils.grid_eval', lambda: utils.grid_eval(G, grid))
    if X is not None:
        bt.cmp('utils.grid_eval', X, sh.V, sc, D)
    X = g('grid_jacobian', lambda: G.grid_jacobian(grid))
    if X is not None:
        bt.cmp('grid_jacobian', X, sh.J, sc, D)
    if hess and sh.H is not None and len(osh) <= 1 and hasattr(G, 'grid_hessian'):
        X = g('grid_hessian', lambda: G.grid_hessian(grid))
        if X is not None:
            bt.cmp('grid_hessian', X, sh.H, sc, D)

    # -- single points, xyz order ----------------------------------------------------------------------
    idx = list(itertools.product(*[range(n) for n in sh.gs]))
    step = max(1, len(idx) // 9)
    sel = idx[::step] + [idx[-1]]

    def at(mi):
        return [float(grid[D - 1 - c][mi[D - 1 - c]]) for c in range(D)]
    X = g('__call__', lambda: np.array([np.asarray(G(*at(mi)), dtype=float) for mi in sel]))
    if X is not None:
        bt.cmp('__call__', X, np.array([sh.V[mi] for mi in sel]), sc, D)
    # arrays as arguments (xyz order) evaluate on the tensor grid
    X = g('__call__(arrays)', lambda: G(*[grid[D - 1 - c] for c in range(D)]))
    if X is not None:
        bt.cmp('__call__(arrays)', X, sh.V, sc, D)

    # mixed calls: per axis a scalar (axis dropped), an array of length 1 (axis kept with length 1) or the full axis
    # vector; the result is the corresponding sub-array of the tensor-grid values
    for combo in itertools.product('s1f', repeat=D):
        if len(set(combo)) == 1 and combo[0] in 'sf':
            continue
        args, index = [], []
        for k in range(D):
            j = min(1, len(grid[k]) - 1)
            if combo[k] == 's':
                args.append(float(grid[k][j])); index.append(j)
            elif combo[k] == '1':
                args.append(np.array([grid[k][j]], dtype=float)); index.append(slice(j, j + 1))
            else:
                args.append(np.asarray(grid[k], dtype=float)); index.append(slice(None))
        X = g('__call__(mixed)', lambda: np.asarray(G(*[args[D - 1 - c] for c in range(D)]), dtype=float))
        if X is not None:
            E = sh.V[tuple(index)]
            ng = sum(1 for ch in combo if ch != 's')
            if X.shape[:ng] != E.shape[:ng]:          # strict on the grid axes (cmp tolerates singleton output axes)
                bt.viol('__call__(mixed scalar/length-1/array arguments)', 'wrong grid shape',
                        arguments=''.join(combo), got=list(X.shape), expected=list(E.shape))
            else:
                bt.cmp('__call__(mixed scalar/length-1/array arguments)', X, E, sc, D)

    # -- scattered points: the tensor grid as unstructured point lists, coordinates in xyz order ----------
    if pointwise:
        M = np.meshgrid(*grid, indexing='ij')
        P = [M[D - 1 - c] for c in range(D)]                      # each of shape gs
        if hasattr(G, 'pointwise_eval'):
            X = g('pointwise_eval', lambda: G.pointwise_eval(P))
            if X is not None:
                bt.cmp('pointwise_eval', X, sh.V, sc, D)
            perm = np.random.RandomState(len(idx)).permutation(len(idx))
            Pp = [q.ravel()[perm] for q in P]
            X = g('pointwise_eval', lambda: G.pointwise_eval(Pp))
            if X is not None:
                bt.cmp('pointwise_eval', X, sh.V.reshape((-1,) + osh)[perm], sc, D)
        if hasattr(G, 'pointwise_jacobian'):
            X = g('pointwise_jacobian', lambda: G.pointwise_jacobian(P))
            if X is not None:
                bt.cmp('pointwise_jacobian', X, sh.J, sc, D)
        # the same points with another memory layout (same shape, same values, other strides): slices of a
        # "coordinates last" point array, Fortran-ordered copies, zero-stride broadcasts of the axis vectors;
        # an evaluation at scattered points is elementwise, so nothing may change
        if D >= 2:
            PL = np.stack(P, axis=-1)
            Ms = np.meshgrid(*grid, indexing='ij', sparse=True)
            layouts = [('strided-view', [PL[..., c] for c in range(D)]),
                       ('fortran-order', [np.asfortranarray(q) for q in P]),
                       ('broadcast-view', [np.broadcast_to(Ms[D - 1 - c], P[c].shape) for c in range(D)])]
            for lname, PV in layouts:
                if hasattr(G, 'pointwise_eval'):
                    X = g('pointwise_eval', lambda: G.pointwise_eval(PV))
                    if X is not None:
                        bt.cmp('pointwise_eval[%s]' % lname, X, sh.V, sc, D)
                if hasattr(G, 'pointwise_jacobian'):
                    X = g('pointwise_jacobian', lambda: G.pointwise_jacobian(PV))
                    if X is not None:
                        bt.cmp('pointwise_jacobian[%s]' % lname, X, sh.J, sc, D)

    if depth >= 2:
        return
    # -- boundaries: names and (axis, side) pairs --------------------------------------------------------
    for ax in range(D):
        for side in (0, 1):
            fsh = sh.face(ax, 0 if side == 0 else -1)
            fdesc = dict(desc)
            if desc.get('support') is not None:
                fdesc['support'] = [s for k, s in enumerate(desc['support']) if k != ax]
            for spec in ((ax, side), BDNAME[(D, ax, side)]):
                route = 'boundary(%s)' % ('name' if isinstance(spec, str) else 'pair')
                Bf = g(route, lambda: G.boundary(spec))
                if Bf is None:
                    continue
                info = dict(bt.info)
                info['bdspec'] = list(bt.info.get('bdspec', [])) + [spec]
                sub = Battery(bt.ctx, bt.agg, bt.tag, info, failed=bt.failed, prefix='boundary().')
                sub.squeeze_ok = bt.squeeze_ok
                sub.record = bt.record
                if desc.get('kind') in ('bsp', 'nurbs'):
                    want = {'bsp': 'BSplineFunc', 'nurbs': 'NurbsFunc'}[desc['kind']]
                    if type(Bf).__name__ != want:
                        sub.viol('class', 'boundary of a %s is a %s' % (want, type(Bf).__name__))
                check_object(sub, Bf, fsh, fdesc, depth=depth + 1 + (0 if isinstance(spec, tuple) else 1),
                             hess=hess, pointwise=pointwise)


def check_restricted_support(bt, make, sh, desc):
    """boundary of an object with restricted support = _BoundaryFunction evaluating at the new bounds (interior grid
    coordinates).  make() returns a fresh real object."""
    D = sh.D
    if D < 1 or any(n < 3 for n in sh.gs):
        return
    G = bt.guarded('rebuild', make)
    if G is None:
        return
    lo = [1] * D
    hi = [n - 2 if n >= 4 else n - 1 for n in sh.gs]
    supp = tuple((float(sh.grid[a][lo[a]]), float(sh.grid[a][hi[a]])) for a in range(D))
    full = G.support

    def setsupp():
        G.support = supp
        return np.array(G.support, dtype=float)
    s = bt.guarded('support setter', setsupp)
    if s is None:
        return
    if s.shape != (D, 2) or (np.abs(s - np.array(supp)) > 0).any():
        bt.viol('support setter', 'support property does not return the restricted support', got=s.tolist(), expected=list(supp))
    # the map itself is unchanged by the restriction
    X = bt.guarded('grid_eval (restricted support)', lambda: G.grid_eval(sh.grid))
    if X is not None:
        bt.cmp('grid_eval (restricted support)', X, sh.V, sh.scale, D)
    for ax in range(D):
        for side in (0, 1):
            gi = lo[ax] if side == 0 else hi[ax]
            fsh = sh.face(ax, gi)
            sub_grid = [np.asarray(x)[lo[k]:hi[k] + 1] for k, x in enumerate(sh.grid) if k != ax]
            cut = tuple(slice(lo[k], hi[k] + 1) for k in range(D) if k != ax)
            for spec in ((ax, side), BDNAME[(D, ax, side)]):
                sub = Battery(bt.ctx, bt.agg, bt.tag + ' restricted-support boundary', bt.info, failed=bt.failed)
                sub.squeeze_ok = bt.squeeze_ok
                Bf = sub.guarded('boundary', lambda: G.boundary(spec))
                if Bf is None:
                    continue
                if type(Bf).__name__ != '_BoundaryFunction':
                    sub.viol('class', 'boundary with restricted support is a %s' % type(Bf).__name__)
                    continue

                def attrs():
                    return (Bf.sdim, tuple(Bf.output_shape()), np.array(Bf.support, dtype=float).reshape(-1, 2))
                a = sub.guarded('attributes', attrs)
                if a is not None:
                    esup = np.array([supp[k] for k in range(D) if k != ax]).reshape(-1, 2)
                    if a[0] != D - 1 or a[1] != sh.osh or a[2].shape != esup.shape or (a[2] != esup).any():
                        sub.viol('attributes', 'wrong sdim/output_shape/support', got=repr(a), expected=repr((D - 1, sh.osh, esup)))
                if D == 1:
                    X = sub.guarded('__call__', lambda: Bf())
                    if X is not None:
                        sub.cmp('__call__', X, fsh.V, sh.scale, 0)
                    continue
                X = sub.guarded('grid_eval', lambda: Bf.grid_eval(sub_grid))
                if X is not None:
                    sub.cmp('grid_eval', X, fsh.V[cut], sh.scale, D - 1)
                X = sub.guarded('grid_jacobian', lambda: Bf.grid_jacobian(sub_grid))
                if X is not None:
                    sub.cmp('grid_jacobian', X, fsh.J[cut], sh.scale, D - 1)
                X = sub.guarded('grid_jacobian(keep_normal)', lambda: Bf.grid_jacobian(sub_grid, keep_normal=True))
                if X is not None:
                    sub.cmp('grid_jacobian(keep_normal)', X, fsh.Jfull[cut], sh.scale, D - 1)
                mi = tuple(n // 2 for n in fsh.gs)
                pt = [float(fsh.grid[D - 2 - c][mi[D - 2 - c]]) for c in range(D - 1)]
                X = sub.guarded('__call__', lambda: Bf(*pt))
                if X is not None:
                    sub.cmp('__call__', np.asarray(X, dtype=float), fsh.V[mi], sh.scale, D - 1)
    # the restriction must not have touched the control net; and it can be undone
    G.support = full


# ----------------------------------------------------------------------------------
# one CASE record

def case_tag(rec):
    res = rec['res']
    return '%s %s' % ({'bsp': 'BSplineFunc', 'nurbs': 'NurbsFunc'}[res['kind']], shape_class(res['osh']))


def run_case(ctx, agg, rec):
    r = rec['recipe']
    res = rec['res']
    sh = Sheet.from_rec(rec)
    D = res['sdim']
    top = r['op']
    variant = rec['id']
    info = dict(fam=rec['fam'], case=rec['id'], recipe=recipe_str(r), sdim=D, osh=res['osh'])
    if top != 'obj':
        info['args'] = {k: v for k, v in r.items() if k not in ('a', 'b', 'obj', 'op')}
    if D <= 1 and top == 'obj':
        info['obj'] = r['obj']
    tag = case_tag(rec) if top == 'obj' else '%s -> %s' % (recipe_str(r) if top in ('line', 'unitcube', 'identity', 'arc') else
                                                          '%s(%s)' % (top, ','.join(operand_class(r[k]) for k in ('a', 'b') if k in r)),
                                                          case_tag(rec))
    bt = Battery(ctx, agg, tag, info)
    bt.record = (top == 'obj')
    ctx.case((rec['fam'], rec['id'], recipe_str(r), D, tuple(res['osh'])), nontrivial=True,
             sample={'recipe': recipe_str(r), 'sdim': D, 'osh': res['osh'], 'grid_sizes': list(sh.gs),
                     'first_value': rec['val'][0][0]} if rec['id'] % 37 == 5 else None)
    B = Built()

    def mk():
        B.operands.clear()
        return build(r, B, variant)
    # operands are fingerprinted before/after the top-level operation
    G = None
    try:
        ops = []
        if top not in ('obj', 'line', 'unitcube', 'identity', 'arc'):
            a = build(r['a'], B, variant)
            ops.append(a)
            if 'b' in r:
                ops.append(build(r['b'], B, variant))
        before = [fingerprint(x) for x in ops]
    except Exception as ex:
        bt.viol('construct operands', 'exception %s' % type(ex).__name__, error=repr(ex)[:300])
        return
    G = bt.guarded('construct', mk)
    if G is None:
        return
    if ops:
        # apply the top-level operation to the fingerprinted operands themselves
        rr = dict(r)
        G2 = bt.guarded('construct', lambda: apply_top(rr, ops))
        after = [fingerprint(x) for x in ops]
        for k, (x, y) in enumerate(zip(before, after)):
            if x != y:
                bt.viol('immutability', 'operand %d altered by the operation' % k)
        before = after
        if G2 is not None:
            G = G2
    desc = dict(kind=res['kind'], support=[[fr(lo), fr(hi)] for lo, hi in res['support']])
    want = {'bsp': 'BSplineFunc', 'nurbs': 'NurbsFunc'}[res['kind']]
    if type(G).__name__ != want:
        bt.viol('class', 'result is a %s, documented: %s' % (type(G).__name__, want))
    check_object(bt, G, sh, desc)
    if top == 'obj' or rec['id'] % 3 == 0:
        check_restricted_support(bt, mk, sh, desc)
    # evaluation must not alter the object either
    if ops:
        after = [fingerprint(x) for x in ops]
        for k, (x, y) in enumerate(zip(before, after)):
            if x != y:
                bt.viol('immutability', 'operand %d altered by evaluating the result' % k)


def operand_class(r):
    if r['op'] == 'obj':
        return shape_class(r['obj']['osh'])
    return recipe_str(r)


def apply_top(r, ops):
    """the top-level operation of recipe r applied to already built operands"""
    rr = dict(r)
    rr['a'] = {'op': '__pre', 'v': ops[0]}
    if 'b' in r:
        rr['b'] = {'op': '__pre', 'v': ops[1]}
    return build(rr, Built())


# ----------------------------------------------------------------------------------
# user-defined functions, compositions, physical gradients (spec/GeoFuncComp.tla)

def poly_funcs(poly, variant=0):
    """python callables (xyz order, numpy broadcasting) for a polynomial map given by monomials"""
    comps = poly['comps']
    D = len(poly['sup'])

    def mono(m, X, ds=None):
        k = fr(m['k'])
        out = k
        for b in range(D):
            e = m['e'][b]
            d = 0 if ds is None else ds[b]
            if e < d:
                return 0.0
            for t in range(d):
                out = out * (e - t)
            if e - d > 0:
                out = out * X[b] ** (e - d)
        return out

    def comp(c, X, ds=None):
        out = 0.0
        for m in comps[c]:
            out = out + mono(m, X, ds)
        return out

    def f(*X):
        vals = tuple(comp(c, X) for c in range(len(comps)))
        if not poly['vec']:
            return vals[0]
        if variant % 2 == 0:
            return vals                              # tuple of (partially broadcast, possibly plain-number) components
        # an array-valued callable must return an array of the shape of its (broadcast) arguments + components
        return np.stack(np.broadcast_arrays(*(list(vals) + list(X)))[:len(vals)], axis=-1)

    def jac(*X):
        rows = []
        for c in range(len(comps)):
            cols = [comp(c, X, [1 if b == bb else 0 for b in range(D)]) for bb in range(D)]
            rows.append(np.stack(np.broadcast_arrays(*(cols + list(X)))[:D], axis=-1))
        if not poly['vec']:
            return rows[0]
        return np.stack(np.broadcast_arrays(*rows), axis=-2)
    return f, jac


def sheet_vj(rec, osh, D):
    grid = [np.array([fr(x) for x in ax]) for ax in rec['grid']]
    gs = tuple(len(g) for g in grid)
    V = farr(rec['val']).T.reshape(gs + osh)
    J = np.transpose(farr(rec['jac']), (2, 1, 0)).reshape(gs + osh + (D,))
    return Sheet(grid, osh, V, J, None)


def check_boundary_function(bt, Bf, fsh, D, esup=None):
    """a _BoundaryFunction (or composed face) against the face sheet fsh; D = sdim of the parent"""
    if D == 1:
        X = bt.guarded('__call__', lambda: Bf())
        if X is not None:
            bt.cmp('__call__', np.asarray(X, dtype=float), fsh.V, fsh.scale, 0)
        return
    X = bt.guarded('grid_eval', lambda: Bf.grid_eval(fsh.grid))
    if X is not None:
        bt.cmp('grid_eval', X, fsh.V, fsh.scale, D - 1)
    X = bt.guarded('grid_jacobian', lambda: Bf.grid_jacobian(fsh.grid))
    if X is not None:
        bt.cmp('grid_jacobian', X, fsh.J, fsh.scale, D - 1)
    mi = tuple(n // 2 for n in fsh.gs)
    pt = [float(fsh.grid[D - 2 - c][mi[D - 2 - c]]) for c in range(D - 1)]
    X = bt.guarded('__call__', lambda: Bf(*pt))
    if X is not None:
        bt.cmp('__call__', np.asarray(X, dtype=float), fsh.V[mi], fsh.scale, D - 1)


def run_user(ctx, agg, rec):
    from pyiga import geometry, utils
    poly = rec['poly']
    D = len(poly['sup'])
    nc = len(poly['comps'])
    osh = (nc,) if poly['vec'] else ()
    sh = sheet_vj(rec, osh, D)
    variant = rec['id']
    f, jac = poly_funcs(poly, variant)
    support = [(float(lo), float(hi)) for lo, hi in poly['sup']]
    info = dict(fam='user', case=rec['id'], sdim=D, comps=poly['comps'])
    bt = Battery(ctx, agg, 'UserFunction %s' % shape_class(osh), info)
    ctx.case(('user', rec['id']), nontrivial=True, sample={'user_function': poly['comps'], 'support': poly['sup']} if rec['id'] == 3 else None)
    kw = {} if variant % 2 == 0 else {'dim': (nc if poly['vec'] else 1)}
    U = bt.guarded('construct', lambda: geometry.UserFunction(f, support, jac=jac, **kw))
    if U is None:
        return

    def attrs():
        return (U.sdim, U.dim, tuple(U.output_shape()) if 'dim' not in kw else None, tuple(tuple(map(float, s)) for s in U.support))
    a = bt.guarded('attributes', attrs)
    if a is not None:
        exp = (D, nc if poly['vec'] else 1, osh if 'dim' not in kw else None, tuple(support))
        if a != exp:
            bt.viol('attributes', 'wrong sdim/dim/output_shape/support', got=repr(a), expected=repr(exp))
    grid = sh.grid
    for route, fn in (('grid_eval', lambda: U.grid_eval(grid)), ('utils.grid_eval', lambda: utils.grid_eval(U, grid)),
                      ('utils.grid_eval(callable)', lambda: utils.grid_eval(f, grid))):
        X = bt.guarded(route, fn)
        if X is not None:
            bt.cmp(route, X, sh.V, sh.scale, D)
    X = bt.guarded('grid_jacobian', lambda: U.grid_jacobian(grid))
    if X is not None:
        bt.cmp('grid_jacobian', X, sh.J, sh.scale, D)
    idx = list(itertools.product(*[range(n) for n in sh.gs]))[::3]
    X = bt.guarded('__call__', lambda: np.array([np.asarray(U(*[float(grid[D - 1 - c][mi[D - 1 - c]]) for c in range(D)]), dtype=float) for mi in idx]))
    if X is not None:
        bt.cmp('__call__', X, np.array([sh.V[mi] for mi in idx]), sh.scale, D)
    M = np.meshgrid(*grid, indexing='ij')
    P = [M[D - 1 - c].ravel() for c in range(D)]
    X = bt.guarded('pointwise_eval', lambda: np.asarray(U.pointwise_eval(P) if poly['vec'] is False or variant % 2 else np.stack(np.broadcast_arrays(*U.pointwise_eval(P)), -1)))
    if X is not None:
        E = sh.V.reshape((-1,) + osh)
        try:        # a callable that ignores its arguments returns values that BROADCAST to the point set: same values
            X = np.broadcast_to(X, E.shape) if X.shape != E.shape and X.ndim <= E.ndim else X
        except ValueError:
            pass
        bt.cmp('pointwise_eval', X, E, sh.scale, D)
    for ax in range(D):
        for side in (0, 1):
            fsh = sh.face(ax, 0 if side == 0 else -1)
            for spec in ((ax, side), BDNAME[(D, ax, side)]):
                sub = Battery(ctx, agg, 'UserFunction %s boundary (_BoundaryFunction)' % shape_class(osh), dict(info, bdspec=spec), failed=bt.failed)
                Bf = sub.guarded('boundary(%s)' % ('name' if isinstance(spec, str) else 'pair'), lambda: U.boundary(spec))
                if Bf is None:
                    continue
                check_boundary_function(sub, Bf, fsh, D)
                if D >= 2:
                    X = sub.guarded('grid_jacobian(keep_normal)', lambda: Bf.grid_jacobian(fsh.grid, keep_normal=True))
                    if X is not None:
                        sub.cmp('grid_jacobian(keep_normal)', X, fsh.Jfull, sh.scale, D - 1)


def run_comp(ctx, agg, rec):
    from pyiga import geometry
    g2 = rec['geo2']
    osh = tuple(rec['osh'])
    D = len(rec['grid'])
    sh = sheet_vj(rec, osh, D)
    if rec['g1'] == 'obj':
        o1 = rec['geo1']
        d1 = '%s %s' % ({'bsp': 'BSplineFunc', 'nurbs': 'NurbsFunc'}[o1['kind']], shape_class(o1['osh']))
        mk1 = lambda: build_obj(o1, rec['id'])
    else:
        d1 = 'UserFunction'
        f, jac = poly_funcs(rec['geo1'], 1)
        mk1 = lambda: geometry.UserFunction(f, [(float(lo), float(hi)) for lo, hi in rec['geo1']['sup']], jac=jac)
    d2 = {'bsp': 'BSplineFunc', 'nurbs': 'NurbsFunc'}[g2['kind']]
    info = dict(fam='compose', case=rec['id'], sdim=D, inner=d1, outer='%s %s sdim=%d' % (d2, shape_class(g2['osh']), len(g2['kvs'])))
    bt = Battery(ctx, agg, 'ComposedFunction(%s o %s)' % (shape_class(g2['osh']), shape_class(rec['geo1']['osh']) if rec['g1'] == 'obj' else 'UserFunction'), info)
    ctx.case(('compose', rec['id']), nontrivial=True, sample=dict(info) if rec['id'] == 2 else None)
    try:
        G1, G2 = mk1(), build_obj(g2, rec['id'])
    except Exception as ex:
        bt.viol('construct operands', 'exception %s' % type(ex).__name__, error=repr(ex)[:300])
        return
    before = (fingerprint(G1), fingerprint(G2))
    C = bt.guarded('construct', lambda: geometry.ComposedFunction(G2, G1))
    if C is None:
        return
    a = bt.guarded('attributes', lambda: (C.sdim, C.dim, np.array(C.support, dtype=float).tolist()))
    if a is not None:
        exp = (D, 1 if not osh else osh[0], np.array(G1.support, dtype=float).tolist())
        if a != exp:
            bt.viol('attributes', 'wrong sdim/dim/support', got=repr(a), expected=repr(exp))
    grid = sh.grid
    X = bt.guarded('grid_eval', lambda: C.grid_eval(grid))
    if X is not None:
        bt.cmp('grid_eval', X, sh.V, sh.scale, D)
    X = bt.guarded('grid_jacobian', lambda: C.grid_jacobian(grid))
    if X is not None:
        bt.cmp('grid_jacobian', X, sh.J, sh.scale, D)
    idx = list(itertools.product(*[range(n) for n in sh.gs]))[::2]
    X = bt.guarded('__call__', lambda: np.array([np.asarray(C(*[float(grid[D - 1 - c][mi[D - 1 - c]]) for c in range(D)]), dtype=float) for mi in idx]))
    if X is not None:
        bt.cmp('__call__', X, np.array([sh.V[mi] for mi in idx]), sh.scale, D)
    if D >= 2:
        for ax in range(D):
            for side in (0, 1):
                fsh = sh.face(ax, 0 if side == 0 else -1)
                spec = (ax, side) if (ax + side) % 2 else BDNAME[(D, ax, side)]
                sub = Battery(ctx, agg, bt.tag + ' boundary', dict(info, bdspec=spec), failed=bt.failed)
                Bf = sub.guarded('boundary()', lambda: C.boundary(spec))
                if Bf is not None:
                    check_boundary_function(sub, Bf, fsh, D)
    if (fingerprint(G1), fingerprint(G2)) != before:
        bt.viol('immutability', 'composition or its evaluation alters an operand')


def run_pg(ctx, agg, rec):
    from pyiga import utils
    D = len(rec['grid'])
    grid = [np.array([fr(x) for x in ax]) for ax in rec['grid']]
    gs = tuple(len(g) for g in grid)
    E = farr(rec['val']).T.reshape(gs + (D,))
    sc = 4.0 * max(1.0, float(np.abs(E).max()))
    kind = {'bsp': 'BSplineFunc', 'nurbs': 'NurbsFunc'}[rec['geo']['kind']]
    info = dict(fam='physgrad', case=rec['id'], sdim=D, geo=kind)
    bt = Battery(ctx, agg, 'PhysicalGradientFunc', info)
    ctx.case(('physgrad', rec['id']), nontrivial=True, sample=dict(info) if rec['id'] == 2 else None)
    try:
        u, geo = build_obj(rec['u'], 0), build_obj(rec['geo'], rec['id'])
    except Exception as ex:
        bt.viol('construct operands', 'exception %s' % type(ex).__name__, error=repr(ex)[:300])
        return
    before = (fingerprint(u), fingerprint(geo))
    pg = bt.guarded('construct', lambda: u.transformed_jacobian(geo))
    if pg is None:
        return
    a = bt.guarded('attributes', lambda: (pg.sdim, pg.dim, tuple(pg.output_shape())))
    if a is not None and a != (D, D, (D,)):
        bt.viol('attributes', 'wrong sdim/dim/output_shape', got=repr(a), expected=repr((D, D, (D,))))
    X = bt.guarded('grid_eval', lambda: pg.grid_eval(grid))
    if X is not None:
        bt.cmp('grid_eval', X, E, sc, D)
    X = bt.guarded('utils.grid_eval', lambda: utils.grid_eval(pg, grid))
    if X is not None:
        bt.cmp('utils.grid_eval', X, E, sc, D)
    mi = tuple(n // 2 for n in gs)
    X = bt.guarded('__call__', lambda: np.asarray(pg(*[float(grid[D - 1 - c][mi[D - 1 - c]]) for c in range(D)]), dtype=float))
    if X is not None:
        bt.cmp('__call__', X, E[mi], sc, D)
    if (fingerprint(u), fingerprint(geo)) != before:
        bt.viol('immutability', 'physical gradient alters an operand')


# ----------------------------------------------------------------------------------
# named shapes with irrational data: numeric predicates on spec-generated cases (spec/GeoFuncNamed.tla)

def ang(a):
    return a[0] / a[1] * (math.pi if a[2] else 1.0)


def unwrapped_angles(P):
    th = np.arctan2(P[..., 1], P[..., 0])
    th = np.where(th < -1e-13, th + 2 * np.pi, th)
    return np.unwrap(th)


def check_arc(bt, G, r, alpha, ts, route):
    P = bt.guarded(route + ' grid_eval', lambda: np.asarray(G.grid_eval([ts]), dtype=float))
    if P is None:
        return
    if P.shape != (len(ts), 2):
        bt.viol(route, 'wrong shape', got=list(P.shape))
        return
    rad = np.hypot(P[:, 0], P[:, 1])
    if (np.abs(rad - r) > 1e-12 * max(1.0, r)).any():
        bt.viol(route, 'radius predicate |G(t)| = r fails', r=r, alpha=alpha, err=float(np.abs(rad - r).max()))
    th = unwrapped_angles(P)
    tol = 1e-11 * max(1.0, alpha)
    if abs(th[0]) > tol or abs(th[-1] - alpha) > tol or (np.diff(th) <= 0).any():
        bt.viol(route, 'angle range predicate fails (angle must increase from 0 to alpha)', r=r, alpha=alpha,
                first=float(th[0]), last=float(th[-1]), monotone=bool((np.diff(th) > 0).all()))
    # parametrisation symmetric: t -> 1 - t mirrors the arc at the bisector
    X = np.asarray(G(0.5), dtype=float)
    E = r * np.array([math.cos(alpha / 2), math.sin(alpha / 2)])
    if (np.abs(X - E) > 1e-12 * max(1.0, r)).any():
        bt.viol(route, 'mid point is not at half the opening angle', r=r, alpha=alpha, got=X.tolist(), expected=E.tolist())


def run_named(ctx, agg, rec):
    from pyiga import geometry
    shape = rec['shape']
    info = dict(fam='named', case=rec['id'], shape=shape)
    bt = Battery(ctx, agg, shape, info)
    ctx.case(('named', rec['id']), nontrivial=True,
             sample={k: v for k, v in rec.items() if k in ('shape', 'alpha', 'r', 'r2', 'phi', 'preds')} if rec['id'] % 41 == 7 else None)
    ts = np.array([fr(t) for t in rec['ts']]) if 'ts' in rec else None
    if shape == 'circular_arc':
        alpha, r = ang(rec['alpha']), fr(rec['r'])
        if not (0.0 < alpha <= 2 * math.pi):
            try:
                geometry.circular_arc(alpha, r)
                bt.viol('circular_arc', 'invalid opening angle accepted', alpha=alpha)
            except ValueError:
                pass
            except Exception as ex:
                bt.viol('circular_arc', 'exception %s for an invalid opening angle (documented: ValueError)' % type(ex).__name__)
            return
        G = bt.guarded('circular_arc', lambda: geometry.circular_arc(alpha, r))
        if G is not None:
            check_arc(bt, G, r, alpha, ts, 'circular_arc')
        for name, f, ok in (('circular_arc_3pt', geometry.circular_arc_3pt, alpha < math.pi),
                            ('circular_arc_5pt', geometry.circular_arc_5pt, alpha < 2 * math.pi),
                            ('circular_arc_7pt', geometry.circular_arc_7pt, True)):
            if ok:
                G = bt.guarded(name, lambda: f(alpha, r))
                if G is not None:
                    check_arc(bt, G, r, alpha, ts, name)
        return
    if shape in ('circle', 'semicircle'):
        r = fr(rec['r'])
        f = getattr(geometry, shape)
        G = bt.guarded(shape, lambda: f(r) if r != 1.0 else f())
        if G is not None:
            check_arc(bt, G, r, 2 * math.pi if shape == 'circle' else math.pi, ts, shape)
        return
    if shape == 'quarter_annulus':
        r1, r2 = fr(rec['r']), fr(rec['r2'])
        G = bt.guarded(shape, lambda: geometry.quarter_annulus(r1, r2))
        if G is None:
            return
        P = bt.guarded('quarter_annulus grid_eval', lambda: np.asarray(G.grid_eval([ts, ts]), dtype=float))     # [y, x, :]
        if P is None:
            return
        rad = np.hypot(P[..., 0], P[..., 1])
        E = r1 + ts[None, :] * (r2 - r1)
        if (np.abs(rad - E) > 1e-12 * r2).any():
            bt.viol(shape, 'annulus predicate |G(x,y)| = r1 + x (r2 - r1) fails', r1=r1, r2=r2, err=float(np.abs(rad - E).max()))
        th = np.arctan2(P[..., 1], P[..., 0])
        if (np.abs(th - th[:, :1]) > 1e-12).any():
            bt.viol(shape, 'polar angle depends on the radial parameter', r1=r1, r2=r2)
        if abs(th[0, 0]) > 1e-12 or abs(th[-1, 0] - math.pi / 2) > 1e-12 or (np.diff(th[:, 0]) <= 0).any():
            bt.viol(shape, 'angle range predicate fails (0 .. pi/2)', r1=r1, r2=r2)
        return
    if shape == 'disk':
        r = fr(rec['r'])
        G = bt.guarded(shape, lambda: geometry.disk(r) if r != 1.0 else geometry.disk())
        if G is None:
            return
        P = bt.guarded('disk grid_eval', lambda: np.asarray(G.grid_eval([ts, ts]), dtype=float))
        if P is None:
            return
        rad = np.hypot(P[..., 0], P[..., 1])
        bd = np.ones(rad.shape, dtype=bool)
        bd[1:-1, 1:-1] = False
        if (np.abs(rad[bd] - r) > 1e-12 * max(1.0, r)).any():
            bt.viol(shape, 'boundary of the disk is not on the circle |G| = r', r=r, err=float(np.abs(rad[bd] - r).max()))
        if (rad[~bd] >= r).any():
            bt.viol(shape, 'interior parameter point mapped outside the disk', r=r)
        c = np.asarray(G(0.5, 0.5), dtype=float)
        if (np.abs(c) > 1e-12 * max(1.0, r)).any():
            bt.viol(shape, 'centre of the parameter domain is not mapped to the centre', r=r, got=c.tolist())
        return
    if shape == 'bspline_quarter_annulus':
        r1, r2 = fr(rec['r']), fr(rec['r2'])
        G = bt.guarded(shape, lambda: geometry.bspline_quarter_annulus(r1, r2))
        if G is None:
            return
        for (x, y), E in (((0, 0), (r1, 0)), ((1, 0), (r2, 0)), ((0, 1), (0, r1)), ((1, 1), (0, r2))):
            X = bt.guarded('bspline_quarter_annulus __call__', lambda: np.asarray(G(float(x), float(y)), dtype=float))
            if X is not None and (np.abs(X - np.array(E)) > 1e-13 * r2).any():
                bt.viol(shape, 'corner predicate fails', corner=[x, y], got=X.tolist(), expected=list(E))
        return
    if shape == 'perturbed_square':
        noise = fr(rec['noise'])
        np.random.seed(int(ctx.seed) + rec['id'])
        G = bt.guarded(shape, lambda: geometry.perturbed_square(num_intervals=rec['n'], noise=noise))
        if G is None:
            return
        P = np.asarray(G.grid_eval([ts, ts]), dtype=float)
        E = np.stack(np.meshgrid(ts, ts, indexing='xy'), axis=-1)           # [y, x, (x, y)]
        if (np.abs(P - E) > noise * (1 + 1e-12)).any():
            bt.viol(shape, 'noise predicate |G - id| <= noise fails', err=float(np.abs(P - E).max()), noise=noise)
        U = geometry.unit_square(rec['n'])
        if (np.abs(np.asarray(U.grid_eval([ts, ts])) - E) > 1e-14).any():
            bt.viol(shape, 'unit_square is not the identity afterwards')
        return
    if shape == 'rotate_2d':
        o = rec['obj']
        phi = ang(rec['phi'])
        D = len(o['kvs'])
        sh = sheet_vj(rec, (2,), D)
        R = np.array([[math.cos(phi), -math.sin(phi)], [math.sin(phi), math.cos(phi)]])
        bt.tag = 'rotate_2d(%s)' % {'bsp': 'BSplineFunc', 'nurbs': 'NurbsFunc'}[o['kind']]
        G0 = bt.guarded('construct', lambda: build_obj(o, rec['id']))
        if G0 is None:
            return
        fp = fingerprint(G0)
        G = bt.guarded('rotate_2d', lambda: G0.rotate_2d(phi))
        if G is None:
            return
        if fingerprint(G0) != fp:
            bt.viol('immutability', 'rotate_2d alters its operand')
        if type(G) is not type(G0):
            bt.viol('class', 'result is a %s' % type(G).__name__)
        EV = np.einsum('ij,...j->...i', R, sh.V)
        EJ = np.einsum('ij,...jk->...ik', R, sh.J)
        X = bt.guarded('grid_eval', lambda: G.grid_eval(sh.grid))
        if X is not None:
            bt.cmp('grid_eval', X, EV, sh.scale, D)
            X = np.asarray(X, dtype=float)
            if X.shape == sh.V.shape:
                n0, n1 = np.linalg.norm(sh.V, axis=-1), np.linalg.norm(X, axis=-1)
                if (np.abs(n0 - n1) > 1e-11 * sh.scale).any():
                    bt.viol('grid_eval', 'rotation predicate |G\'(t)| = |G(t)| fails', phi=phi)
        X = bt.guarded('grid_jacobian', lambda: G.grid_jacobian(sh.grid))
        if X is not None:
            bt.cmp('grid_jacobian', X, EJ, sh.scale, D)
        return
    raise MachineryError('unknown named shape %r' % shape)


# ----------------------------------------------------------------------------------
# the state machine "no operation alters an existing object" (spec/GeoFuncOps.tla)

def ops_cfgs(ctx):
    """(universe, MaxSteps, MaxLive, simulate)"""
    if ctx.thorough:
        return [(1, 2, 6, None), (2, 2, 6, None), (3, 2, 6, None), (1, 4, 8, 12), (2, 4, 8, 12), (3, 4, 8, 12)]
    return [(4, 2, 6, None), (1, 1, 6, None), (2, 1, 6, None), (3, 1, 6, None), (2, 3, 7, 2), (3, 3, 7, 2)]


def apply_step(st, live):
    rr = dict(st)
    rr['a'] = {'op': '__pre', 'v': live[st['a'] - 1]}
    if 'b' in st:
        rr['b'] = {'op': '__pre', 'v': live[st['b'] - 1]}
    return build(rr, Built())


def poke(G):
    """move the first control point by one unit in the first component, in place (NurbsFunc stores homogeneous
    coordinates: the weighted point moves by its weight)"""
    c = G.coeffs
    if type(G).__name__ == 'NurbsFunc':
        c[(0,) * G.sdim + (0,)] += c[(0,) * G.sdim + (-1,)]
    else:
        c[(0,) * c.ndim] += 1.0


def evaluate_all(x):
    out = []
    ends = [np.array([float(lo), 0.5 * (float(lo) + float(hi)), float(hi)]) for lo, hi in x.support]
    for f in (x.grid_eval, x.grid_jacobian, x.grid_hessian):
        try:
            out.append(np.array(f(ends), dtype=float))
        except Exception as ex:
            out.append(type(ex).__name__)
    return out


def same_evals(a, b):
    return all((isinstance(x, str) and x == y) or (not isinstance(x, str) and not isinstance(y, str) and
                                                    x.shape == y.shape and np.array_equal(x, y)) for x, y in zip(a, b))


def step_str(st):
    return '%s(%s)' % (st['op'], ','.join(str(st[k]) for k in ('a', 'b') if k in st))


def run_ops(ctx, agg, res, name):
    inits = res.recs('INIT')
    steps = res.recs('STEP')
    if not inits or not steps:
        raise MachineryError('GeoFuncOps %s emitted nothing' % name)
    objs = inits[0]['objs']
    seen = set()
    for rec in steps:
        hist = rec['hist']
        key = (name, repr(hist))
        if key in seen:
            continue
        seen.add(key)
        hs = ' '.join(step_str(st) for st in hist)
        ctx.case(('ops', inits[0]['universe'], hs), nontrivial=len(hist) >= 2 or 'b' in hist[-1],
                 sample={'universe': inits[0]['universe'], 'history': hs, 'result': rec['res']} if len(seen) % 997 == 5 else None)
        info = dict(universe=inits[0]['universe'], history=hs, last=hist[-1])
        bt = Battery(ctx, agg, 'operations', info)
        bt.squeeze_ok = True         # scalar <-> 1-vector output shapes are reported by the case families
        try:
            live = [build_obj(o, k) for k, o in enumerate(objs)]
        except Exception as ex:
            bt.viol('construct initial objects', 'exception %s' % type(ex).__name__, error=repr(ex)[:300])
            continue
        ok = True
        target = None
        for x in live:
            evaluate_all(x)
        for st in hist:
            if st['op'] in ('poke', 'pokesrc'):
                # the user edits one control point of one side of a copy() through the documented `coeffs` attribute:
                # the other side is an independent object, so neither its data nor its evaluations may move
                X, other = live[st['a'] - 1], live[st['other'] - 1]
                ofp, oev = fingerprint(other), evaluate_all(other)
                try:
                    poke(X)
                except Exception as ex:
                    bt.viol(st['op'], 'exception %s' % type(ex).__name__, error=repr(ex)[:300])
                    ok = False
                    break
                if fingerprint(other) != ofp:
                    bt.viol('copy', 'shares its coefficient data with the original')
                elif not same_evals(evaluate_all(other), oev):
                    bt.viol('copy', 'evaluation of one side changes when the other side is edited')
                target = X
                evaluate_all(X)
                continue
            before = [fingerprint(x) for x in live]
            try:
                G = apply_step(st, live)
            except Exception as ex:
                bt.viol('%s' % st['op'], 'exception %s' % type(ex).__name__, error=repr(ex)[:300])
                ok = False
                break
            after = [fingerprint(x) for x in live]
            for k, (x, y) in enumerate(zip(before, after)):
                if x != y:
                    bt.viol('%s' % st['op'], 'alters an existing object', altered=k + 1,
                            operand=(k + 1) in (st['a'], st.get('b')))
            live.append(G)
            target = G
            # between the operations the objects are USED (values, Jacobians, Hessians): read-only
            for x in live:
                evaluate_all(x)
        if not ok:
            continue
        G = target
        grid = [np.array([fr(x) for x in ax]) for ax in rec['grid']]
        gs = tuple(len(g) for g in grid)
        osh = tuple(rec['res']['osh'])
        D = len(grid)
        V = farr(rec['val']).T.reshape(gs + osh)
        J = np.transpose(farr(rec['jac']), (2, 1, 0)).reshape(gs + osh + (D,))
        sc = 4.0 * max(1.0, float(np.abs(V).max()), float(np.abs(J).max()))
        before = [fingerprint(x) for x in live]
        want = {'bsp': 'BSplineFunc', 'nurbs': 'NurbsFunc'}[rec['res']['kind']]
        if type(G).__name__ != want:
            bt.viol(hist[-1]['op'], 'result is a %s, expected %s' % (type(G).__name__, want))
        X = bt.guarded('%s result grid_eval' % hist[-1]['op'], lambda: G.grid_eval(grid))
        if X is not None:
            bt.cmp('%s result grid_eval' % hist[-1]['op'], X, V, sc, D)
        X = bt.guarded('%s result grid_jacobian' % hist[-1]['op'], lambda: G.grid_jacobian(grid))
        if X is not None:
            bt.cmp('%s result grid_jacobian' % hist[-1]['op'], X, J, sc, D)
        # evaluating every live object must not alter anything either
        for x in live[:-1]:
            try:
                x.grid_eval([np.array([float(lo), float(hi)]) for lo, hi in x.support])
                x.grid_jacobian([np.array([float(lo), float(hi)]) for lo, hi in x.support])
            except Exception:
                pass
        after = [fingerprint(x) for x in live]
        for k, (x, y) in enumerate(zip(before, after)):
            if x != y:
                bt.viol('evaluation', 'alters an existing object', altered=k + 1)
    return len(seen)


# ----------------------------------------------------------------------------------

def fam_runs(ctx):
    """(family, nparts, workers) per tier"""
    if ctx.thorough:
        return [('base', 6, 2), ('unary', 6, 2), ('binary', 6, 2), ('ctor', 2, 2)]
    return [('base', 2, 3), ('unary', 2, 2), ('binary', 2, 3), ('ctor', 1, 2)]


def run(ctx):
    ctx.rule = ('TLC enumerates (exhaustively over the pools of spec/GeoFuncCases.tla: knot-vector combinations with mixed degrees '
                '0-3, repeated and rational knots, sdim 1-3 x output shape scalar/(1)/(2)/(3)/(2,2)/(2,3) x B-spline/NURBS with '
                'rational weights) recipes = explicit control nets, every unary/binary operation with scalar/vector/matrix '
                'arguments, every constructor (line_segment, unit_square/cube, identity, circular arcs with Pythagorean angles), '
                'polynomial user functions, compositions and physical gradients; one case = one recipe rebuilt with the real API '
                'and driven through every evaluation route on a TLC-chosen rational grid (every case is non-trivial: >= 2 grid '
                'points per axis, distinct coordinates per axis); plus one case per operation history of spec/GeoFuncOps.tla '
                '(exhaustive to depth 1-2, simulated to depth 3-4; non-trivial = at least two operations or a binary operation) '
                'and one case per named shape/radius/angle of spec/GeoFuncNamed.tla (numeric predicates)')
    ctx.assumptions = ['expected values are exact rationals of spec/GeoFunc.tla (on BSplineRef); float comparison |x-q| <= 1e-11 '
                       'max(1,|q|,4 max|sheet|)',
                       'named shapes with irrational data (circle, semicircle, disk, quarter annulus, arcs/rotations by angles '
                       'without rational sine/cosine) are only checked by numeric predicates (|G| = r to 1e-12, angle range, '
                       'G\' = R(phi) G with the exact G)',
                       '32-bit rationals: Hessians of 3-D NURBS results of operations, of 7-point arcs and of compositions are not '
                       'computed by the spec; a part whose Hessians overflow is redone without them (reported under skipped)',
                       'Hessians of matrix-valued functions are not defined by the library (assert) and not checked']
    OBJ_FAILED.clear()
    agg = Agg(ctx)
    jobs = []
    for fam, nparts, workers in fam_runs(ctx):
        for part in range(nparts):
            jobs.append((fam, nparts, part, workers))

    def run_job(job):
        fam, nparts, part, workers = job
        for maxd in (2, 1):
            cfg = write_cfg(ctx.scratch / ('gf_%s_%d_%d.cfg' % (fam, part, maxd)),
                            dict(Fam=fam, Thorough=ctx.thorough, NParts=nparts, Part=part, Seed=int(ctx.seed) % 1000, MaxD=maxd, Mut=0),
                            invariants=['CaseOK'])
            res = tlc(ctx, 'GeoFuncCases', cfg, workers=workers, timeout=7200, must_pass=False)
            if res.ok:
                return fam, res
            if maxd == 2 and res.error and 'Overflow when computing' in res.error:
                # exact 32-bit rational arithmetic overflowed in a second derivative: this part is redone without Hessians
                ctx.skip('family %s part %d/%d: Hessians not checked (32-bit overflow in the exact reference)' % (fam, part, nparts))
                continue
            raise MachineryError('GeoFuncCases %s part %d: TLC did not complete cleanly (violated=%s error=%s)\n%s'
                                 % (fam, part, res.violated, res.error, res.stdout[-3000:]))

    def run_ops_job(item):
        uni, maxsteps, maxlive, sim = item
        name = 'ops_u%d_s%d%s' % (uni, maxsteps, '_sim' if sim else '')
        cfg = write_cfg(ctx.scratch / (name + '.cfg'), dict(Universe=uni, MaxSteps=maxsteps, MaxLive=maxlive, DoEmit=True),
                        invariants=['AllWellFormed', 'EmitInit'], properties=['OperandsUnchanged'], view='View')
        kw = dict(simulate=sim, depth=maxsteps + 1, seed=int(ctx.seed) + 7) if sim else {}
        return name, tlc(ctx, 'GeoFuncOps', cfg, workers=1 if sim else 2, timeout=7200, **kw)

    ncomp = 3 if ctx.thorough else 1

    def run_comp_job(part):
        nparts = ncomp
        cfg = write_cfg(ctx.scratch / ('comp_%d.cfg' % part),
                        dict(Thorough=ctx.thorough, NParts=nparts, Part=part, Seed=0), invariants=['CaseOK'])
        return tlc(ctx, 'GeoFuncComp', cfg, workers=2, timeout=7200)

    def run_named_job():
        cfg = write_cfg(ctx.scratch / 'named.cfg', dict(Thorough=ctx.thorough, Seed=0), invariants=['CaseOK'])
        return tlc(ctx, 'GeoFuncNamed', cfg, workers=2, timeout=7200)

    def neg_control(item):
        fam, mut = item
        cfg = write_cfg(ctx.scratch / ('gf_neg_%d.cfg' % mut),
                        dict(Fam=fam, Thorough=False, NParts=1, Part=0, Seed=int(ctx.seed) % 1000, MaxD=1, Mut=mut), invariants=['CaseOK'])
        ctx.expect_violation('GeoFuncCases', cfg, invariant='CaseOK', workers=1)

    with ThreadPoolExecutor(8) as ex:
        fut_neg = [ex.submit(neg_control, it) for it in (('binary', 1), ('unary', 2))]
        fut_named = ex.submit(run_named_job)
        fut_comp = [ex.submit(run_comp_job, p) for p in range(ncomp)]
        fut_ops = [ex.submit(run_ops_job, it) for it in ops_cfgs(ctx)]
        results = list(ex.map(run_job, jobs))
        ops_results = [f.result() for f in fut_ops]
        comp_results = [f.result() for f in fut_comp]
        named_result = fut_named.result()
        for f in fut_neg:
            f.result()
    n = 0
    for fam, res in results:
        if len(res.recs('CASE')) != res.distinct - 1:
            raise MachineryError('GeoFuncCases %s: %d cases emitted for %d states' % (fam, len(res.recs('CASE')), res.distinct))
        for rec in sorted(res.recs('CASE'), key=lambda r: r['id']):
            run_case(ctx, agg, rec)
            n += 1
    if n == 0:
        raise MachineryError('GeoFuncCases emitted nothing')
    m = 0
    for res in comp_results:
        for tag, fn in (('USER', run_user), ('COMP', run_comp), ('PG', run_pg)):
            for rec in sorted(res.recs(tag), key=lambda r: r['id']):
                fn(ctx, agg, rec)
                m += 1
    if m == 0:
        raise MachineryError('GeoFuncComp emitted nothing')
    recs = named_result.recs('NAMED')
    if not recs:
        raise MachineryError('GeoFuncNamed emitted nothing')
    for rec in sorted(recs, key=lambda r: r['id']):
        run_named(ctx, agg, rec)
    ctx.notes['operation_histories_replayed'] = sum(run_ops(ctx, agg, res, name) for name, res in ops_results)
    agg.flush()
    ctx.notes['families'] = 'base/unary/binary/ctor/compose: exhaustive over the pools; operation histories: exhaustive to depth 1-2, simulated beyond'
    ctx.exhaustive = False
