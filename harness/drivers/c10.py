"""C10 -- eliminating Dirichlet dofs.

Part 1 (spec/Dirichlet.tla): TLC enumerates every injective index sequence (any order, empty .. all dofs),
value mode, elim_rows, rhs mode and matrix rendering for systems of size n <= 5 and emits the exact restricted
system, its exact rational solution and the completed vector; every case is replayed on the real
pyiga.assemble.RestrictedLinearSystem (M1).
Part 2 (spec/DirichletBC.tla): dof sets of faces (all bdspecs, flips), blocked numbering of vector data,
compute_dirichlet_bc(s) with data in the trace space, combine_bcs, compute_initial_condition_01,
Multipatch.compute_dirichlet_bcs (spec/DirichletMP.tla instantiates Multipatch.tla)."""
import zlib
from concurrent.futures import ThreadPoolExecutor

import numpy as np
import scipy.sparse

from ..common import MachineryError, frac, write_cfg

RLS_INVS = ['PropValues', 'PropRows', 'Consistent', 'CodeAgrees', 'EmitSys']
BC_INVS = ['FaceOK', 'SliceOK', 'BcsOK', 'CombineOK', 'InitOK']
TOL = 1e-9


def _h(*xs):
    """deterministic small hash for choosing renderings (list / tuple / ndarray ...)"""
    return zlib.crc32(repr(xs).encode())


# ======================================================================================
# part 1: RestrictedLinearSystem

def rls_cfgs(ctx):
    """one TLC run per system size; (VModes, RModes, Fmts) apply without elim_rows, (EVModes, ...) with"""
    allv, allr, two, three = {'zero', 'scalar', 'array'}, {'array', 'zero'}, {'dense', 'csr'}, {'dense', 'csr', 'csc'}
    out = []

    def add(name, N, elim, modes, emodes, workers=2):
        out.append((name, dict(N=N, MaxLen=N, ElimMode=elim, VModes=modes[0], RModes=modes[1], Fmts=modes[2],
                               EVModes=emodes[0], ERModes=emodes[1], EFmts=emodes[2], Buggy=False, DoEmit=True),
                    workers))
    full = (allv, allr, three if ctx.thorough else two)
    for n in (1, 2, 3):
        add('n%d' % n, n, 'all', full, full, workers=1)
    if not ctx.thorough:
        add('n4', 4, 'all', full, ({'array', 'zero'}, allr, {'csr'}))
        add('n5', 5, 'sets2', full, ({'array'}, {'array'}, two))
    else:
        add('n4', 4, 'all', full, full, workers=3)
        add('n5', 5, 'sets2', full, full, workers=4)
        add('n5-all', 5, 'all', ({'array'}, {'array'}, {'csr'}), ({'array'}, {'array'}, two), workers=4)
    return out


class Tally:
    """violations grouped by a class-level signature; the first (smallest) failing case is kept"""

    def __init__(self):
        self.d = {}

    def add(self, sig, detail):
        e = self.d.setdefault(sig, {'count': 0, 'first': detail, 'more': []})
        e['count'] += 1
        if 0 < e['count'] - 1 <= 3:
            e['more'].append(detail)

    def flush(self, ctx):
        for sig, e in self.d.items():
            print('[c10] %6d failing case(s): %s' % (e['count'], sig), flush=True)
            ctx.violation(sig, {'failing_cases': e['count'], 'first': e['first'], 'more': e['more']})


def render_matrix(M, fmt):
    if fmt == 'dense':
        return np.array(M, dtype=float)
    return scipy.sparse.csr_matrix(np.array(M, dtype=float)).asformat(fmt)


def dense(M):
    return M.toarray() if scipy.sparse.issparse(M) else np.asarray(M)


def replay_rls(ctx, tally, sysrec, r):
    from pyiga import assemble
    n, idx, vm, rm, fmt = r['n'], r['idx'], r['vm'], r['rm'], r['fmt']
    m = len(idx)
    hv = _h(idx, vm, rm, r['elim'], fmt)
    A = render_matrix(sysrec['A'], fmt)
    B = render_matrix(sysrec['B'], fmt)
    Ad = np.array(sysrec['A'], dtype=float)
    barr = np.array(sysrec['b'], dtype=float)
    b = barr.copy() if rm == 'array' else (0 if hv % 2 else 0.0)
    bfull = barr if rm == 'array' else np.zeros(n)
    vals = np.array(r['vals'], dtype=float)
    if vm == 'array':
        kind = hv % 3
        if kind == 0 or m == 0:
            bcs = (np.array(idx, dtype=int), vals.copy())
        elif kind == 1:
            bcs = (list(idx), [float(v) for v in vals])
        else:
            bcs = (tuple(idx), tuple(float(v) for v in vals))
    else:
        s = float(sysrec['scalar']) if vm == 'scalar' else (0 if hv % 2 else 0.0)
        bcs = (np.array(idx, dtype=int), s)
    kw = {}
    if r['helim']:
        kw['elim_rows'] = [list, tuple, lambda e: np.array(e, dtype=int)][hv % 3](r['elim'])
    order = 'sorted' if list(idx) == sorted(idx) else 'unsorted'
    cls = 'indices=%s values=%s' % (order, vm)
    case = {k: r[k] for k in ('n', 'idx', 'vm', 'vals', 'helim', 'elim', 'rm', 'fmt')}

    def bad(obs, got, want):
        tally.add('RestrictedLinearSystem %s %s' % (obs, cls),
                  {'case': case, 'observed': np.asarray(got).tolist(), 'expected': np.asarray(want).tolist()})

    def same(x, q, scale=1.0):
        x = np.asarray(x, dtype=float)
        q = np.asarray(q, dtype=float)
        return x.shape == q.shape and bool(np.all(np.abs(x - q) <= TOL * max(1.0, scale, float(np.abs(q).max(initial=0.0)))))

    try:
        LS = assemble.RestrictedLinearSystem(A, b, bcs, **kw)
        nf = n - m
        Ar = np.array(r['Ar'], dtype=float).reshape(nf, nf)
        br = np.array(r['br'], dtype=float)
        u_ref = np.array([float(frac(q)) for q in r['u']])
        x_ref = np.array([float(frac(q)) for q in r['x']])
        LA = dense(LS.A)
        if not same(LA, Ar):
            bad('A', LA, Ar)
        if not same(LS.b, br):
            bad('b', LS.b, br)
        # solve the system the CODE produced and complete
        u = np.linalg.solve(LA, np.asarray(LS.b, dtype=float)) if LA.shape == (nf, nf) and nf > 0 else np.zeros(nf)
        x = np.asarray(LS.complete(u), dtype=float)
        scale = float(np.abs(x_ref).max(initial=1.0))
        # the property itself, on the real result
        if x.shape != (n,) or any(abs(x[i] - v) > TOL * max(1, abs(v)) for i, v in zip(idx, vals)):
            bad('complete:prescribed-values', x, x_ref)
        elif not same(x, x_ref, scale):
            bad('complete:solution', x, x_ref)
        if x.shape == (n,):
            res = Ad.dot(x) - bfull
            rows = r['frows']
            if any(abs(res[i]) > 1e-8 * max(1.0, scale * 10) for i in rows):
                bad('complete:non-eliminated-rows-residual', res, np.zeros(n))
        if not same(u, u_ref, scale) and same(LA, Ar) and same(LS.b, br):
            bad('solve', u, u_ref)
        # consistency of the operators on fixed test vectors
        w = np.array(sysrec['w'], dtype=float)
        z = np.array(sysrec['z'][:nf], dtype=float)
        if not same(LS.restrict(w), r['rw']):
            bad('restrict', LS.restrict(w), r['rw'])
        if not same(LS.restrict_rhs(w), r['rrw']):
            bad('restrict_rhs', LS.restrict_rhs(w), r['rrw'])
        if not same(LS.extend(z), r['ez']):
            bad('extend', LS.extend(z), r['ez'])
        if not same(LS.complete(z), r['cz']):
            bad('complete:arbitrary-vector', LS.complete(z), r['cz'])
        rB = dense(LS.restrict_matrix(B))
        if not same(rB, np.array(r['rB'], dtype=float).reshape(nf, nf)):
            bad('restrict_matrix', rB, r['rB'])
    except Exception as ex:
        tally.add('exception %s RestrictedLinearSystem %s' % (type(ex).__name__, cls),
                  {'case': case, 'error': repr(ex)})
    # the property itself with an INTEGER-typed right-hand side (the documented `b = 0` idiom, or an int array) and
    # non-integer Dirichlet values: the completed vector takes the values and satisfies the non-eliminated rows
    if m >= 1 and vm == 'array' and hv % 3 == 0:
        try:
            bi = np.array(sysrec['b'], dtype=int) if rm == 'array' else 0
            bfull_i = np.array(sysrec['b'], dtype=float) if rm == 'array' else np.zeros(n)
            hvals = vals / 2.0 + 0.25
            LS2 = assemble.RestrictedLinearSystem(A, bi, (np.array(idx, dtype=int), hvals.copy()), **kw)
            LA2 = dense(LS2.A)
            nf = n - m
            u2 = np.linalg.solve(LA2, np.asarray(LS2.b, dtype=float)) if nf > 0 else np.zeros(0)
            x2 = np.asarray(LS2.complete(u2), dtype=float)
            if any(abs(x2[i] - v) > TOL * max(1, abs(v)) for i, v in zip(idx, hvals)):
                bad('integer-rhs complete:prescribed-values', x2, hvals)
            else:
                res2 = Ad.dot(x2) - bfull_i
                if any(abs(res2[i]) > 1e-8 * max(1.0, float(np.abs(x2).max()) * 10) for i in r['frows']):
                    bad('integer-rhs complete:non-eliminated-rows-residual', res2, np.zeros(n))
        except Exception as ex:
            tally.add('exception %s RestrictedLinearSystem integer-rhs %s' % (type(ex).__name__, cls),
                      {'case': case, 'error': repr(ex)})
    nontrivial = m >= 2 and order == 'unsorted' or r['helim'] and m >= 1
    ctx.case(('rls', n, tuple(idx), vm, r['helim'], tuple(r['elim']), rm, fmt), nontrivial=nontrivial,
             sample=case if (hv % 997 == 0) else None)


# ======================================================================================
# part 2: faces, boundary conditions

def open_knots(p, a, b, nspans):
    return np.concatenate((np.repeat(float(a), p), np.linspace(float(a), float(b), nspans + 1), np.repeat(float(b), p)))


def basis_matrix(t, p, x):
    """Cox-de Boor (the harness's own evaluation, independent of pyiga): B[q, i] = B_{i,p}(x[q])."""
    x = np.clip(np.asarray(x, dtype=float).ravel(), t[0], t[-1])
    nk = len(t)
    B = np.zeros((len(x), nk - 1))
    nonempty = [i for i in range(nk - 1) if t[i] < t[i + 1]]
    for i in nonempty:
        B[:, i] = (t[i] <= x) & (x < t[i + 1])
    B[x == t[-1], nonempty[-1]] = 1.0
    for d in range(1, p + 1):
        Bn = np.zeros((len(x), nk - 1 - d))
        for i in range(nk - 1 - d):
            if t[i + d] > t[i]:
                Bn[:, i] += (x - t[i]) / (t[i + d] - t[i]) * B[:, i]
            if t[i + d + 1] > t[i + 1]:
                Bn[:, i] += (t[i + d + 1] - x) / (t[i + d + 1] - t[i + 1]) * B[:, i + 1]
        B = Bn
    return B


class TPSpline:
    """tensor-product spline with given coefficient array over knot arrays (axis order as in pyiga)"""

    def __init__(self, knots, degs, coeffs):
        self.knots, self.degs = knots, degs
        self.C = np.asarray(coeffs, dtype=float)

    def __call__(self, params):
        """params: list of equally shaped arrays, one per axis (axis order)"""
        params = np.broadcast_arrays(*params) if params else []
        shp = params[0].shape if params else ()
        Bs = [basis_matrix(t, p, x) for t, p, x in zip(self.knots, self.degs, params)]
        D = len(Bs)
        if D == 0:
            return self.C
        sub = 'ijk'[:D]
        out = np.einsum(','.join('p' + s for s in sub) + ',' + sub + '...->p...', *Bs, self.C)
        return out.reshape(shp + self.C.shape[D:])


class Geo:
    """a geometry variant: the pyiga geometry and the harness's own inverse map (physical xyz -> axis params)"""

    def __init__(self, D, variant):
        from pyiga import geometry
        self.D, self.variant = D, variant
        if variant == 'box':
            self.lo, self.ln = [-1.0, 0.5, 2.0][:D], [2.0, 0.5, 4.0][:D]
        else:
            assert variant == 'unit' or (variant == 'rot90' and D == 2)
            self.lo, self.ln = [0.0] * D, [1.0] * D
        segs = [geometry.line_segment(self.lo[a], self.lo[a] + self.ln[a]) for a in range(D)]
        g = segs[0] if D == 1 else geometry.tensor_product(*segs)     # first factor <-> axis 0 <-> LAST coordinate
        if variant == 'rot90':
            g = g.apply_matrix(np.array([[0.0, -1.0], [1.0, 0.0]]))   # (x, y) = (-y0, x0)
        self.geo = g

    def params(self, X):
        """physical coordinates (x, y, z order) -> parameters in axis order"""
        D = self.D
        X = list(X)
        if self.variant == 'rot90':           # x0 = y, y0 = -x
            X = [X[1], -X[0]]
        return [(X[D - 1 - a] - self.lo[a]) / self.ln[a] for a in range(D)]


def make_space(rec):
    from pyiga import bspline
    shape, deg = rec['shape'], rec['deg']
    kvs = tuple(bspline.make_knots(p, 0.0, 1.0, n - p) for n, p in zip(shape, deg))
    knots = [open_knots(p, 0.0, 1.0, n - p) for n, p in zip(shape, deg)]
    return kvs, knots


def bdspec_of(bd):
    return bd['name'] if bd['name'] else (bd['ax'], bd['side'])


def geo_variants(D):
    return ['unit', 'box'] + (['rot90'] if D == 2 else [])


class BCReplay:
    def __init__(self, ctx, tally):
        self.ctx, self.tally = ctx, tally
        self.spaces = {}
        self.geos = {}

    def space(self, rec):
        key = (tuple(rec['shape']), tuple(rec['deg']))
        if key not in self.spaces:
            raise MachineryError('no SPACE record for %s' % (key,))
        return self.spaces[key]

    def add_space(self, rec):
        key = (tuple(rec['shape']), tuple(rec['deg']))
        kvs, knots = make_space(rec)
        coef = {f + 1: np.array(cf, dtype=float).reshape(rec['shape']) for f, cf in enumerate(rec['coef'])}
        self.spaces[key] = dict(kvs=kvs, knots=knots, coef=coef, shape=tuple(rec['shape']), deg=tuple(rec['deg']),
                                D=rec['D'], N=int(np.prod(rec['shape'])))

    def geo(self, D, variant):
        if (D, variant) not in self.geos:
            self.geos[(D, variant)] = Geo(D, variant)
        return self.geos[(D, variant)]

    def func(self, sp, G, fs):
        """boundary data in physical coordinates: the spline(s) with coefficient set(s) fs, composed with G^-1"""
        if isinstance(fs, int):
            C = sp['coef'][fs]
        else:
            C = np.stack([sp['coef'][f] for f in fs], axis=-1)
        S = TPSpline(sp['knots'], sp['deg'], C)
        return lambda *X: S(G.params(X))

    def bad(self, sig, detail):
        self.tally.add(sig, detail)

    @staticmethod
    def as_map(idx, vals):
        idx = np.asarray(idx)
        vals = np.asarray(vals, dtype=float)
        if idx.shape != vals.shape or idx.ndim != 1:
            return None
        d = {}
        for i, v in zip(idx.tolist(), vals.tolist()):
            if i in d:
                return None           # a dof returned twice
            d[i] = v
        return d

    # ---------------------------------------------------------------------------------
    def face(self, r):
        from pyiga import assemble
        sp = self.space(r)
        kvs, D = sp['kvs'], r['D']
        bds = bdspec_of(r['bd'])
        cls = 'dim=%d' % D
        case = {k: r[k] for k in ('D', 'shape', 'deg', 'bd', 'hasflip', 'flip')}
        hv = _h(r['shape'], r['deg'], r['bd'], r['flip'])
        kw = {}
        if r['hasflip']:
            kw['flip'] = tuple(r['flip']) if hv % 2 else list(r['flip'])
        try:
            got = assemble.boundary_dofs(kvs, bds, ravel=True, **kw)
            if np.asarray(got).tolist() != r['dofs']:
                self.bad('boundary_dofs ravel=True flip=%s %s' % ('given' if r['hasflip'] else 'none', cls),
                         {'case': case, 'observed': np.asarray(got).tolist(), 'expected': r['dofs']})
            got = assemble.boundary_dofs(kvs, bds, **kw)
            if np.asarray(got).reshape(-1, D).tolist() != r['multi']:
                self.bad('boundary_dofs ravel=False flip=%s %s' % ('given' if r['hasflip'] else 'none', cls),
                         {'case': case, 'observed': np.asarray(got).tolist(), 'expected': r['multi']})
        except Exception as ex:
            self.bad('exception %s boundary_dofs %s' % (type(ex).__name__, cls), {'case': case, 'error': repr(ex)})
        self.ctx.case(('face', tuple(r['shape']), tuple(r['deg']), str(bds), r['hasflip'], tuple(r['flip'])),
                      nontrivial=D >= 2, sample=case if hv % 211 == 0 else None)
        if r['hasflip']:
            return
        try:
            got = assemble.boundary_cells(kvs, bds, ravel=True)
            got2 = assemble.boundary_cells(kvs, bds)
            if np.asarray(got).tolist() != r['cells'] or np.asarray(got2).reshape(-1, D).tolist() != r['cellmulti']:
                self.bad('boundary_cells %s' % cls, {'case': case, 'observed': np.asarray(got).tolist(),
                                                     'expected': r['cells']})
        except Exception as ex:
            self.bad('exception %s boundary_cells %s' % (type(ex).__name__, cls), {'case': case, 'error': repr(ex)})
        want = dict(zip(r['dofs'], r['vals']))
        for variant in geo_variants(D):
            G = self.geo(D, variant)
            c2 = dict(case, geometry=variant)
            # scalar data in the trace space
            self._bc_call('compute_dirichlet_bc scalar-data', cls, c2,
                          lambda: assemble.compute_dirichlet_bc(kvs, G.geo, bds, self.func(sp, G, 1)),
                          {d: [v] for d, v in want.items()})
            # constant given as a scalar
            self._bc_call('compute_dirichlet_bc constant', cls, c2,
                          lambda: assemble.compute_dirichlet_bc(kvs, G.geo, bds, 2.5),
                          {d: [2.5] for d in want})
            # vector data, blocked numbering
            for nc in (2, 3):
                exp = {e['dof']: [e['val']] for e in r['vec%d' % nc]}
                self._bc_call('compute_dirichlet_bc vector-data', cls, dict(c2, ncomp=nc),
                              lambda: assemble.compute_dirichlet_bc(kvs, G.geo, bds,
                                                                    self.func(sp, G, list(range(4, 4 + nc)))),
                              exp)

    def _bc_call(self, what, cls, case, call, admissible):
        """admissible: dof -> list of admissible values; exactly these dofs, each once"""
        self.ctx.case(None, nontrivial=True)
        try:
            idx, vals = call()
        except Exception as ex:
            self.bad('exception %s %s %s' % (type(ex).__name__, what.split()[0], cls), {'case': case, 'error': repr(ex)})
            return
        got = self.as_map(idx, vals)
        if got is None:
            self.bad('%s duplicate-or-malformed %s' % (what, cls),
                     {'case': case, 'indices': np.asarray(idx).tolist(), 'values': np.asarray(vals).tolist()})
            return
        if set(got) != set(admissible):
            self.bad('%s dof-set %s' % (what, cls),
                     {'case': case, 'observed': sorted(got), 'expected': sorted(admissible)})
            return
        wrong = {d: (v, admissible[d]) for d, v in got.items()
                 if not any(abs(v - float(a)) <= TOL * max(1.0, abs(float(a))) for a in admissible[d])}
        if wrong:
            self.bad('%s values %s' % (what, cls), {'case': case, 'wrong (dof: observed, admissible)': wrong})

    # ---------------------------------------------------------------------------------
    def slice(self, r):
        from pyiga import assemble
        case = {k: r[k] for k in ('D', 'shape', 'ax', 'pos')}
        self.ctx.case(('slice', tuple(r['shape']), r['ax'], r['pos']), nontrivial=r['D'] >= 2)
        try:
            got = assemble.slice_indices(r['ax'], r['pos'], tuple(r['shape']), ravel=True)
            got2 = assemble.slice_indices(r['ax'], r['pos'], list(r['shape']))
            if np.asarray(got).tolist() != r['dofs'] or np.asarray(got2).reshape(-1, r['D']).tolist() != r['multi']:
                self.bad('slice_indices dim=%d' % r['D'], {'case': case, 'observed': np.asarray(got).tolist(),
                                                           'expected': r['dofs']})
        except Exception as ex:
            self.bad('exception %s slice_indices dim=%d' % (type(ex).__name__, r['D']), {'case': case, 'error': repr(ex)})

    def bcs(self, r):
        from pyiga import assemble
        sp = self.space(r)
        kvs, D = sp['kvs'], r['D']
        hv = _h(r['shape'], r['deg'], r['conds'], r['shorthand'])
        variant = geo_variants(D)[hv % len(geo_variants(D))]
        G = self.geo(D, variant)
        case = {'D': D, 'shape': r['shape'], 'deg': r['deg'], 'geometry': variant, 'shorthand': r['shorthand'],
                'conds': [[bdspec_of(cn['bd']), cn['f']] for cn in r['conds']]}
        cls = 'dim=%d' % D
        if r['shorthand']:
            f = r['conds'][0]['f']
            bdconds = ('all', self.func(sp, G, f)) if hv % 2 else ['all', self.func(sp, G, f)]
        else:
            bdconds = [(bdspec_of(cn['bd']), self.func(sp, G, cn['f'])) for cn in r['conds']]
        adm = {e['dof']: e['adm'] for e in r['entries']}
        self._bc_call('compute_dirichlet_bcs', cls, case,
                      lambda: assemble.compute_dirichlet_bcs(kvs, G.geo, bdconds), adm)
        if r['shorthand']:
            # vector data on the whole boundary: blocked numbering, one value per (component, dof)
            N = sp['N']
            nc = 2
            exp = {e['dof'] + j * N: [sp['coef'][4 + j].ravel()[e['dof']]] for e in r['entries'] for j in range(nc)}
            self._bc_call('compute_dirichlet_bcs vector-data', cls, dict(case, ncomp=nc),
                          lambda: assemble.compute_dirichlet_bcs(kvs, G.geo, ('all', self.func(sp, G, [4, 5]))), exp)

    def combine(self, r):
        from pyiga import assemble
        hv = _h(r['bcs'])
        bcs = [(np.array(i, dtype=int), np.array(v, dtype=float)) for i, v in zip(r['bcs'], r['vals'])]
        if hv % 2:
            bcs = iter(bcs)
        adm = {e['dof']: e['adm'] for e in r['entries']}
        self._bc_call('combine_bcs', 'nbcs=%d' % len(r['bcs']), {'bcs': r['bcs'], 'vals': r['vals']},
                      lambda: assemble.combine_bcs(bcs), adm)

    def init(self, r):
        from pyiga import assemble, bspline
        sp = self.space(r)
        D, tax, side = r['D'], r['tax'], r['side']
        ta, tb = float(r['ta']), float(r['tb'])
        kvs = list(sp['kvs'])
        pt, nsp = sp['deg'][tax], sp['shape'][tax] - sp['deg'][tax]
        if r.get('graded'):
            brk = [ta + (tb - ta) * (k * (k + 1)) / (nsp * (nsp + 1)) for k in range(nsp + 1)]
            brk[-1] = tb
            kvs[tax] = bspline.KnotVector(np.array([ta] * pt + brk + [tb] * pt, dtype=float), pt)
        else:
            kvs[tax] = bspline.make_knots(pt, ta, tb, nsp)
        kvs = tuple(kvs)
        fshape = [n for a, n in enumerate(sp['shape']) if a != tax]
        fknots = [k for a, k in enumerate(sp['knots']) if a != tax]
        fdeg = [p for a, p in enumerate(sp['deg']) if a != tax]
        S0 = TPSpline(fknots, fdeg, np.array(r['g0'], dtype=float).reshape(fshape))
        S1 = TPSpline(fknots, fdeg, np.array(r['g1'], dtype=float).reshape(fshape))
        Df = D - 1
        variant = 'box' if _h(r['shape'], r['deg'], tax, side, r['ta']) % 2 else 'unit'
        if r['physical']:
            # G(x, t) = (G~(x), t): time is axis 0 = last physical coordinate
            from pyiga import geometry
            Gs = Geo(Df, variant)
            geo = geometry.tensor_product(geometry.line_segment(ta, tb, support=(ta, tb)), Gs.geo)
            g0 = lambda *X: S0(Gs.params(X[:Df])) + 0.0 * X[-1]
            g1 = lambda *X: S1(Gs.params(X[:Df])) + 0.0 * X[-1]
        else:
            geo = None
            g0 = lambda *X: S0([X[Df - 1 - a] for a in range(Df)])      # parametric: xyz order -> axis order
            g1 = lambda *X: S1([X[Df - 1 - a] for a in range(Df)])
        case = {k: r[k] for k in ('D', 'shape', 'deg', 'tax', 'side', 'ta', 'tb', 'physical', 'graded')}
        cls = 'time-interval=[%d,%d] side=%d%s' % (r['ta'], r['tb'], side, ' graded-time-knots' if r.get('graded') else '')
        exp = {e['dof']: [float(frac(e['val']))] for e in r['entries']}
        self._bc_call('compute_initial_condition_01', cls, case,
                      lambda: assemble.compute_initial_condition_01(kvs, geo, (tax, side), g0, g1,
                                                                    physical=r['physical']), exp)

    def reject(self, r):
        from pyiga import assemble
        sp = self.space(r)
        bds = bdspec_of(r['bd'])
        self.ctx.case(('reject', r['D'], str(bds)), nontrivial=False)
        try:
            got = assemble.boundary_dofs(sp['kvs'], bds, ravel=True)
        except Exception:
            return
        self.bad('invalid-bdspec-accepted dim=%d bdspec=%s' % (r['D'], bds),
                 {'D': r['D'], 'bdspec': str(bds), 'returned': np.asarray(got).tolist()})


# ======================================================================================
# multipatch: global (glued) numbering of boundary conditions

BDNAMES2 = {(1, 0): 'left', (1, 1): 'right', (0, 0): 'bottom', (0, 1): 'top'}


def replay_mp(ctx, tally, sysrec, cases):
    from pyiga import assemble, bspline
    from .c14 import make_patches
    NN, NP, W = sysrec['NN'], sysrec['NP'], sysrec['W']
    p = NN - 1
    N = NN * NN
    cx = dict(D=2, NN=NN, NP=NP, W=W, kind='lattice', refl=sysrec['refl'])
    patches = make_patches(cx)
    name = 'lattice %dx%d NN=%d refl=%s' % (W[0], W[1], NN, sysrec['reflseed'])
    try:
        MP = assemble.Multipatch(patches, automatch=True)
        gidx = [np.asarray(MP.patch_to_global_idx(q)) for q in range(NP)]
    except Exception as ex:
        tally.add('exception %s Multipatch automatch %s' % (type(ex).__name__, name), {'error': repr(ex)})
        return
    # global index -> class label of the spec
    g2l = {}
    for d, lab in enumerate(sysrec['label']):
        g = int(gidx[d // N][d % N])
        if g2l.setdefault(g, lab) != lab:
            # the glued numbering itself is C14's property, but a mismatch is a defect of the real code all the same
            tally.add('Multipatch glued-numbering-does-not-match-closure', {'complex': name, 'dof': d, 'global': g})
            return
    # lattice function f: F[f][y-index][x-index]; physical point of lattice point = pt / p
    ny, nx = W[0] * p + 1, W[1] * p + 1
    F = {}
    for f, cf in enumerate(sysrec['coef']):
        arr = np.full((ny, nx), np.nan)
        for d, v in enumerate(cf):
            pt = sysrec['point'][d]
            if not np.isnan(arr[pt[0], pt[1]]) and arr[pt[0], pt[1]] != v:
                raise MachineryError('lattice function not single-valued')
            arr[pt[0], pt[1]] = v
        F[f + 1] = arr
    bern_t = open_knots(p, 0.0, 1.0, 1)

    def gfun(f):
        def g(x, y):
            x, y = np.broadcast_arrays(np.asarray(x, dtype=float), np.asarray(y, dtype=float))
            shp = x.shape
            x, y = x.ravel(), y.ravel()
            cxx = np.clip(np.floor(x), 0, W[1] - 1).astype(int)
            cyy = np.clip(np.floor(y), 0, W[0] - 1).astype(int)
            Bx = basis_matrix(bern_t, p, x - cxx)
            By = basis_matrix(bern_t, p, y - cyy)
            out = np.zeros(len(x))
            for i in range(NN):
                for j in range(NN):
                    out += By[:, i] * Bx[:, j] * F[f][cyy * p + i, cxx * p + j]
            return out.reshape(shp)
        return g

    for r in cases:
        conds = r['conds']
        hv = _h(conds)
        bdconds = []
        for cn in conds:
            bd = (cn['ax'], cn['side'])
            bdconds.append((cn['p'], BDNAMES2[bd] if hv % 2 else bd, gfun(cn['f'])))
        case = {'complex': name, 'conds': [[cn['p'], cn['ax'], cn['side'], cn['f']] for cn in conds]}
        cls = 'nconds=%s' % (len(conds) if len(conds) <= 2 else 'outer-boundary')
        ctx.case(('mp', name, str(case['conds'])), nontrivial=len(conds) >= 2,
                 sample=case if hv % 101 == 0 else None)
        try:
            idx, vals = MP.compute_dirichlet_bcs(bdconds)
        except Exception as ex:
            tally.add('exception %s Multipatch.compute_dirichlet_bcs %s' % (type(ex).__name__, cls),
                      {'case': case, 'error': repr(ex)})
            continue
        got = BCReplay.as_map(idx, vals)
        if got is None:
            tally.add('Multipatch.compute_dirichlet_bcs duplicate-or-malformed %s' % cls,
                      {'case': case, 'indices': np.asarray(idx).tolist()})
            continue
        adm = {e['label']: e['adm'] for e in r['entries']}
        try:
            gl = {g2l[g]: v for g, v in got.items()}
        except KeyError:
            tally.add('Multipatch.compute_dirichlet_bcs index-out-of-range %s' % cls, {'case': case, 'indices': sorted(got)})
            continue
        if set(gl) != set(adm):
            tally.add('Multipatch.compute_dirichlet_bcs dof-set %s' % cls,
                      {'case': case, 'observed_classes': sorted(gl), 'expected_classes': sorted(adm)})
            continue
        wrong = {l: (v, adm[l]) for l, v in gl.items() if not any(abs(v - a) <= TOL * max(1, abs(a)) for a in adm[l])}
        if wrong:
            tally.add('Multipatch.compute_dirichlet_bcs values %s' % cls, {'case': case, 'wrong': wrong})


# ======================================================================================

def run(ctx):
    ctx.rule = ('part 1: one case = one RestrictedLinearSystem call enumerated by TLC (n <= 5, every injective index '
                'sequence in every order incl. empty and all dofs, values scalar 0 / scalar / per dof, elim_rows none or '
                'given in any order, rhs array / scalar 0, dense / sparse matrix), replayed on the real class and '
                'compared with the exact rational reference (A, b, solution, completed vector, restrict/extend/'
                'restrict_rhs/restrict_matrix); non-trivial = unsorted indices of length >= 2 or elim_rows given. '
                'part 2: one case = one call of boundary_dofs/boundary_cells/slice_indices/compute_dirichlet_bc(s)/'
                'combine_bcs/compute_initial_condition_01/Multipatch.compute_dirichlet_bcs on a TLC-enumerated '
                '(space, bdspec, flip | condition list | time axis) with boundary data in the trace space; '
                'non-trivial = dimension >= 2')
    ctx.assumptions = [
        'system matrices: one fixed non-symmetric integer matrix per n whose square sub-matrices are all regular',
        'boundary data are splines of the trace space on affine (box, scaled/translated box, rotated square) '
        'geometries, so interpolation reproduces integer coefficients; NURBS / non-affine geometries not covered',
        'B-spline evaluation used to DEFINE the boundary data is the harness\'s own Cox-de Boor, not pyiga\'s',
    ]
    tier = 'thorough' if ctx.thorough else 'quick'
    jobs = []
    for name, consts, workers in rls_cfgs(ctx):
        jobs.append(('rls', name, 'Dirichlet', consts, RLS_INVS, workers))
    for name, parts in (('faces', {'faces', 'reject', 'init', 'combine'}), ('bcs', {'bcs'})):
        jobs.append(('bc', name, 'DirichletBC', dict(Tier=tier, Parts=parts, Dims={1, 2, 3}), BC_INVS, 3))
    mpc = [(1, 2, 2, 0), (1, 2, 3, 0b0110), (2, 2, 2, 0)]
    if ctx.thorough:
        mpc += [(2, 2, 3, 0b10011100), (2, 3, 2, 0), (1, 3, 3, 0b010010)]
    for (w1, w2, nn, refl) in mpc:
        jobs.append(('mp', 'mp-%dx%d-%d-%d' % (w1, w2, nn, refl), 'DirichletMP',
                     dict(MW1=w1, MW2=w2, MNN=nn, MRefl=refl, MaxConds=2), ['MPOK', 'EmitSys'], 2))

    def one(job):
        kind, name, module, consts, invs, workers = job
        cfg = write_cfg(ctx.scratch / ('c10_%s_%s.cfg' % (kind, name)), consts, invariants=invs)
        return job, ctx.tlc(module, cfg, workers=workers, timeout=3000)

    with ThreadPoolExecutor(4) as ex:
        results = list(ex.map(one, jobs))

    # negative control: the mask-based completion as the code stands violates the reference
    one_ = ({'array'}, {'array'}, {'dense'})
    neg = dict(N=3, MaxLen=3, ElimMode='none', VModes=one_[0], RModes=one_[1], Fmts=one_[2], EVModes=one_[0],
               ERModes=one_[1], EFmts=one_[2], Buggy=True, DoEmit=False)
    ctx.expect_violation('Dirichlet', write_cfg(ctx.scratch / 'c10_rls_buggy.cfg', neg, invariants=RLS_INVS),
                         invariant='CodeAgrees')

    import time
    t_replay = time.time()
    tally = Tally()
    bc = BCReplay(ctx, tally)
    for job, res in results:
        for rec in res.recs('SPACE'):
            bc.add_space(rec)
    for job, res in results:
        kind, name = job[0], job[1]
        if kind == 'rls':
            sysr, recs = res.recs('SYS'), res.recs('RLS')
            if len(sysr) != 1 or not recs:
                raise MachineryError('no RLS cases generated for %s' % name)
            t1 = time.time()
            for r in recs:
                replay_rls(ctx, tally, sysr[0], r)
            print('[c10]   RLS %s: %d records replayed in %.1fs' % (name, len(recs), time.time() - t1), flush=True)
        elif kind == 'bc':
            tags = {'faces': ['FACE', 'SLICE', 'COMBINE', 'INIT', 'REJECT'], 'bcs': ['BCS']}[name]
            for tag in tags:
                t1 = time.time()
                recs = res.recs(tag)
                if not recs:
                    raise MachineryError('no %s cases generated' % tag)
                fn = getattr(bc, {'FACE': 'face', 'SLICE': 'slice', 'BCS': 'bcs', 'COMBINE': 'combine',
                                  'INIT': 'init', 'REJECT': 'reject'}[tag])
                for r in recs:
                    fn(r)
                print('[c10]   %s: %d records replayed in %.1fs' % (tag, len(recs), time.time() - t1), flush=True)
        else:
            sysr, recs = res.recs('MPSYS'), res.recs('MPBC')
            if len(sysr) != 1 or not recs:
                raise MachineryError('no multipatch cases generated for %s' % name)
            replay_mp(ctx, tally, sysr[0], recs)
    print('[c10] replay on the real code: %.1fs' % (time.time() - t_replay), flush=True)
    tally.flush(ctx)
    # quick: for n = 5 elim_rows only as ascending/descending row SETS and fewer mode combinations with elim_rows
    ctx.exhaustive = bool(ctx.thorough)
