"""C08 -- assembly is independent of symmetry flag, format, layout, subset and thread count.

Design checks (spec/AsmSched.tla, TLC): chunk_tasks ranges partition 0..len-1 (all len <= 64, k <= 16); the thread pool of
multi_entries/multi_blocks (process per chunk) and the symmetric vector kernel (process per outer index) are explored in
EVERY interleaving: no location written by two processes, every location written exactly once, the final array is
the same in every terminal state, symmetric == full under B(J,I) = B(I,J)^T; index maps of the post-processing
(mirroring, BSR permutation/transposition, blocked <-> packed) are bijections denoting the same operator.
Negative controls: overlapping chunks, kernel without the `diag0 > 0` / inner `continue` tests, multi_blocks' legacy shape.

M1: TLC emits the configurations (PROB: dim, knot vectors, components, {sym} x {format} x {layout}, threads 1..16,
subsets, row sets, bounding boxes, layout permutations, structures; CHUNK: ranges; HIST: update sequences); worker
processes (harness/c08_worker.py) assemble them with the shipped assemblers (+ compiled forms in the thorough tier,
private XDG_CACHE_HOME) and compare: bitwise across thread counts, pool sizes and 20 repetitions at 16 threads, to
rounding across flags/formats/subsets/updates, through the spec's permutation across layouts.

Real thread interleavings cannot be forced from Python: the design is proved race-free in TLC, the implementation is
bound to it through outcomes only."""
import json
import os
import subprocess
from concurrent.futures import ThreadPoolExecutor

import numpy as np

from ..common import PY, REPO, VERIF, MachineryError, write_cfg

MACHINE_INVS = ['Disjoint', 'AtMostOnce', 'ReadOwn', 'Final', 'EmitDone']
SYM_INVS = MACHINE_INVS + ['SymEqualsFull', 'SchedOK', 'TranspOK']
POST_INVS = ['StructSymOK', 'PostEntriesOK', 'BsrShapeOK', 'PostBsrOK', 'LayoutOK', 'RowsOK', 'EmitProb']


def consts(mode, suite, variant='ok', emit=True):
    return dict(Mode=mode, Suite=suite, Variant=variant, DoEmit=emit, MaxLen=64, MaxK=16)


def run_specs(ctx):
    suite = 'thorough' if ctx.thorough else 'quick'
    runs = [
        ('chunks', consts('chunks', suite), ['ChunksOK', 'ChunksAsProved', 'EmitChunks'], 1, None),
        ('pool', consts('pool', suite), MACHINE_INVS, 4, None),
        ('sym', consts('sym', suite), SYM_INVS, 4, None),
        ('post', consts('post', suite), POST_INVS, 4, None),
        ('upd', consts('upd', suite), ['UpdOK', 'EmitUpd'], 1, None),
        # negative controls
        ('neg-chunks', consts('chunks', 'neg', 'racy', False), ['ChunksOK'], 1, 'ChunksOK'),
        ('neg-pool', consts('pool', 'neg', 'racy', False), ['Disjoint'], 1, 'Disjoint'),
        ('neg-sym-top', consts('sym', 'neg', 'racy', False), ['Disjoint'], 1, 'Disjoint'),
        ('neg-sym-inner', consts('sym', 'neg', 'racy-inner', False), ['AtMostOnce'], 1, 'AtMostOnce'),
        ('neg-bsr-shape', consts('post', 'neg', 'legacy', False), ['BsrShapeOK'], 1, 'BsrShapeOK'),
    ]

    def one(item):
        name, c, invs, workers, neg = item
        cfg = write_cfg(ctx.scratch / ('asm_%s.cfg' % name), c, invariants=invs)
        if neg:
            return name, ctx.expect_violation('AsmSched', cfg, invariant=neg, workers=workers, timeout=1200)
        return name, ctx.tlc('AsmSched', cfg, workers=workers, timeout=3000)

    with ThreadPoolExecutor(4) as ex:
        return dict(ex.map(one, runs))


def check_machines(res):
    """non-vacuity: every problem of the pool / kernel suites reached a terminal state (where Final is evaluated)"""
    for mode in ('pool', 'sym'):
        done = res[mode].recs('DONE')
        if not done or res[mode].distinct <= len(done):
            raise MachineryError('AsmSched %s: no terminal states reached' % mode)
    return len(res['pool'].recs('DONE')), len(res['sym'].recs('DONE'))


def check_chunk_tasks(ctx, recs):
    """chunk_tasks called directly for all (len, k): lists and the 2-D index / output arrays of multi_entries"""
    try:
        from pyiga.assemble_tools_cy import chunk_tasks
    except Exception as ex:
        ctx.violation('exception %s importing chunk_tasks' % type(ex).__name__, {'error': repr(ex)})
        return
    bad = []
    for r in recs:
        n, k = r['len'], r['k']
        want = [list(range(a, b)) for a, b in r['ranges']]
        try:
            got = [list(c) for c in chunk_tasks(list(range(n)), k)]
            idx = np.arange(2 * n, dtype=np.uintp).reshape(n, 2)
            got2 = [[int(row[0]) // 2 for row in c] for c in chunk_tasks(idx, k)]
        except Exception as ex:
            ctx.violation('exception %s chunk_tasks' % type(ex).__name__, {'len': n, 'k': k, 'error': repr(ex)})
            return
        ctx.case(('chunk', n, k), nontrivial=n > k > 1,
                 sample={'chunk_tasks': {'len': n, 'k': k, 'ranges': r['ranges']}} if (n, k) == (37, 5) else None)
        if got != want or got2 != want:
            bad.append({'len': n, 'k': k, 'expected': r['ranges'], 'got': [[c[0], c[-1] + 1] if c else [] for c in got]})
    if bad:
        ctx.violation('chunk_tasks-mismatch', {'count': len(bad), 'first': bad[:10]})


def run_tlaps(ctx):
    """unbounded proof of the chunking arithmetic (spec/ChunksProof.tla) with the TLA+ proof system; AsmSched's invariant
    ChunksAsProved ties the bounded model to the module the proof is about"""
    from ..common import run_tlaps as _tl
    _tl(ctx, 'ChunksProof', 'StepPositive, AtMostK, NonEmptyConsecutive, Covers for all len, k')
    if 'tlaps_ChunksProof' in ctx.notes:
        ctx.notes['tlaps'] = ctx.notes['tlaps_ChunksProof']


def launch(ctx, name, job):
    jf = ctx.scratch / ('job_%s.json' % name)
    of = ctx.scratch / ('out_%s.json' % name)
    jf.write_text(json.dumps(job))
    cache = ctx.scratch / ('cache_%s' % name)
    cache.mkdir(exist_ok=True)
    env = dict(os.environ)
    env.update(PYTHONPATH=str(REPO) + os.pathsep + str(VERIF), PYIGA_REPO=str(REPO), XDG_CACHE_HOME=str(cache),
               OMP_WAIT_POLICY='passive', GOMP_SPINCOUNT='0', PYTHONHASHSEED='0')
    env.pop('PYIGA_VERIF', None)
    p = subprocess.run([PY, '-m', 'harness.c08_worker', str(jf), str(of)], cwd=str(VERIF), env=env,
                       stdout=subprocess.PIPE, stderr=subprocess.PIPE, text=True, timeout=3000)
    out = None
    if of.exists():
        try:
            out = json.loads(of.read_text())
        except Exception:
            out = None
    return name, job, p.returncode, p.stderr[-2500:], out


def make_jobs(ctx, probs, hists):
    tier = 'thorough' if ctx.thorough else 'quick'
    jobs = {}
    shipped = ['mass', 'stiff', 'heat', 'wave', 'divdiv2', 'divdiv3']
    usable = [p for p in probs if p['d'] in (2, 3) and (p['nc0'], p['nc1']) in ((0, 0), (2, 2), (3, 3))
              and not (p['d'] == 2 and p['nc0'] == 3) and not (p['d'] == 3 and p['nc0'] == 2)]
    usable.sort(key=lambda p: -p['M'] * max(1, p['nc0']) ** 2 * (4 if p['nc0'] == 0 else 1))
    nw = 6 if ctx.thorough else 4
    for n, p in enumerate(usable):
        jobs.setdefault('main%d' % (n % nw), dict(pool=16, tier=tier, probs=[], forms=shipped, reps=20))['probs'].append(p)
    # other pool sizes: the digests of the raw results must agree with those of the pool-of-16 processes
    for pool in ((3, 7) if ctx.thorough else (3,)):
        jobs['pool%d' % pool] = dict(pool=pool, tier=tier, probs=usable if ctx.thorough else usable[:6], forms=shipped,
                                     digest_only=True)
    d2s = [p for p in probs if p['d'] == 2 and (p['nc0'], p['nc1']) == (0, 0)]
    jobs['c-fgrad'] = dict(pool=16, tier=tier, probs=d2s if ctx.thorough else d2s[:2], forms=['c-fgrad'], hists=hists,
                           updates_only=True)
    if ctx.thorough:
        d1 = [p for p in probs if p['d'] == 1]
        d2 = [p for p in probs if p['d'] == 2]
        jobs['c-reac1'] = dict(pool=16, tier=tier, probs=[p for p in d1 if p['nc0'] == 0], forms=['c-reac1'], reps=20)
        jobs['c-vec1'] = dict(pool=16, tier=tier, probs=[p for p in d1 if p['nc0'] == 2 and p['nc1'] == 2],
                              forms=['c-vec1'], reps=20)
        jobs['c-2x1'] = dict(pool=16, tier=tier, probs=[p for p in d2 if (p['nc0'], p['nc1']) == (2, 1)],
                             forms=['c-2x1'], reps=20, hists=hists)
        jobs['c-1x2'] = dict(pool=16, tier=tier, probs=[p for p in d2 if (p['nc0'], p['nc1']) == (1, 2)],
                             forms=['c-1x2'], reps=20)
        jobs['bbox'] = dict(pool=16, tier=tier, probs=[p for p in d2 if p['nc0'] == 0], forms=[], bboxes=True)
    covered = {json.dumps([p['codes'], p['nc0'], p['nc1']]) for j in jobs.values() if not j.get('digest_only')
               and (j.get('forms') or j.get('bboxes')) for p in j['probs']}
    for p in probs:
        if json.dumps([p['codes'], p['nc0'], p['nc1']]) not in covered:
            ctx.skip('no %s form for d=%d comps=%dx%d kvs=%s' % ('shipped' if not ctx.thorough else 'shipped/compiled',
                                                                  p['d'], p['nc0'], p['nc1'], p['codes']))
    return jobs


def run(ctx):
    ctx.rule = ('TLC enumerates problems (dim 1-3 x knot vectors x components scalar/2x2/2x1/1x2/3x3) and for each the '
                'configurations {symmetric} x {csr,csc,coo,bsr,mlb} x {blocked,packed}, thread counts 1..16, index subsets, '
                'row sets, bounding boxes, update histories; one case = one (problem, form, configuration) assembled by the '
                'real code at every thread count 1..16 and 20 times at 16 threads (bitwise), compared with the one-thread '
                'unsymmetric csr/blocked operator of a fresh object (rounding) through the spec\'s layout permutation; '
                'plus one case per subset / row set / bounding box / update history / (len,k) of chunk_tasks; '
                'non-trivial = more than one chunk or entry involved')
    ctx.assumptions = [
        'real thread interleavings are not controllable from Python: race freedom is proved for the design (every '
        'interleaving of the process-per-chunk and process-per-outer-index models in TLC); the implementation is bound '
        'to it through outcomes only (bitwise equality over thread counts 1..16, pool sizes 3/7/16, 20 repetitions)',
        'entry_impl(i,j) is a pure function of (i,j) and the assembler state (it writes only its own output block)',
        'OpenMP prange distributes whole outer iterations mu0 to threads (any schedule)',
        'shipped assemblers in the quick tier; dim 1, non-square components, updates and on-demand bounding boxes need '
        'compiled forms and run in the thorough tier only',
    ]
    res = run_specs(ctx)
    npool, nsym = check_machines(res)
    ctx.notes['machine_terminal_states'] = {'pool': npool, 'sym': nsym}

    chunks = res['chunks'].recs('CHUNK')
    probs = res['post'].recs('PROB')
    hists = res['upd'].recs('HIST')
    if len(chunks) != 65 * 16 or not probs or not hists:
        raise MachineryError('AsmSched generation incomplete: %d CHUNK, %d PROB, %d HIST' % (len(chunks), len(probs), len(hists)))
    check_chunk_tasks(ctx, chunks)
    run_tlaps(ctx)

    jobs = make_jobs(ctx, probs, hists)
    with ThreadPoolExecutor(6 if ctx.thorough else 5) as ex:
        results = list(ex.map(lambda kv: launch(ctx, kv[0], kv[1]), sorted(jobs.items())))

    digests = {}
    viol = {}           # signature -> details of the failing configurations (one VIOLATION per signature)
    for name, job, rc, err, out in results:
        if out is None:
            if rc is not None and rc < 0:
                ctx.violation('interpreter-killed signal=%d job=%s' % (-rc, name.rstrip('0123456789')),
                              {'job': name, 'stderr': err})
                continue
            raise MachineryError('c08 worker %s failed (rc=%s):\n%s' % (name, rc, err))
        print('[worker] %s: %d cases, %d violations' % (name, len(out['cases']), len(out['violations'])), flush=True)
        for key, nontrivial, sample in out['cases']:
            if not job.get('digest_only'):
                ctx.case(json.dumps(key), nontrivial=nontrivial, sample=sample)
        for sig, detail in out['violations']:
            viol.setdefault(sig, []).append(detail)
        for s in out['skips']:
            ctx.skip(s)
        for k, v in out['digests'].items():
            if job.get('digest_only'):
                digests.setdefault(k, {})[name] = v
            else:
                digests.setdefault(k, {})['main'] = v
    for sig in sorted(viol):
        ds = viol[sig]
        ctx.violation(sig, {'count': len(ds), 'failing': ds[:8]})
    ncross = 0
    for k, d in digests.items():
        if 'main' in d and len(d) > 1:
            ncross += 1
            if len(set(d.values())) != 1:
                ctx.violation('not-bitwise-across-pool-sizes %s' % k, d)
    ctx.notes['pool_size_cross_checks'] = ncross
    if not ncross:
        raise MachineryError('no pool-size cross checks were made')
    ctx.exhaustive = False
