"""C20 -- on-disk compile cache under crashes and concurrency.

Design check: spec/CompileCache.tla (fixed protocol passes safety + liveness; Legacy violates = negative control).
M1: every crash point of the spec is produced for real (SIGKILL at the hook of that linearisation point; SIGKILL of the
    whole process group at the moment inotify reports an in-place write of an artefact; truncations of the file that was
    being written -- prefixes of a file written in place are reachable crash states); then a fresh process must obtain a
    correct assembler.
M2: per-process hook traces of real concurrent compilations are validated by spec/CompileTrace.tla."""
import hashlib
import json
import os
import random
import shutil
import signal
import subprocess
import threading
import time
from concurrent.futures import ThreadPoolExecutor
from pathlib import Path

import numpy as np

from ..common import PY, REPO, VERIF, MachineryError, write_cfg

CHILD = str(VERIF / 'harness' / 'c20_child.py')
STAGES = ['import_fail', 'builddir', 'pyx_open', 'pyx_written', 'cythonized', 'built', 'published', 'cleaned']
TIMEOUT = 900
HANG_IDLE = 90        # seconds without any CPU use by the request's whole process group = it waits for nothing


def expected():
    from pyiga import assemble, bspline
    kv = bspline.make_knots(2, 0.0, 1.0, 3)
    M = assemble.bsp_mass_1d(kv).toarray() * 2.0
    K = assemble.bsp_stiffness_1d(kv).toarray() / 2.0
    return {'mass': M, 'mass2': 2 * M, 'mass3': 3 * M, 'mass5': 5 * M, 'stiff': K}


class Child:
    """One interpreter compiling forms into cache directory `cache`."""

    def __init__(self, cache, forms, fault=None, delay=0.0, trace=None, tag=''):
        self.cache = Path(cache)
        self.forms = list(forms)
        env = dict(os.environ)
        env.update(XDG_CACHE_HOME=str(cache), PYTHONPATH=str(REPO), PYIGA_VERIF='1', PYTHONHASHSEED='0',
                   OMP_NUM_THREADS='1')
        env.pop('PYIGA_VERIF_COMPILE_FAULT', None)
        env.pop('PYIGA_VERIF_TRACE', None)
        if fault:
            env['PYIGA_VERIF_COMPILE_FAULT'] = fault
        if trace:
            env['PYIGA_VERIF_TRACE'] = str(trace)
        if delay:
            env['C20_DELAY'] = str(delay)
        self.resfile = self.cache / ('result_%s_%d.json' % (tag, random.getrandbits(40)))
        env['C20_RESULT'] = str(self.resfile)
        self.p = subprocess.Popen([PY, CHILD] + self.forms, env=env, cwd=str(self.cache),
                                  stdout=subprocess.DEVNULL, stderr=subprocess.PIPE, start_new_session=True)
        self.stderr = b''

    def group_cpu(self):
        """CPU seconds consumed so far by all live processes of the child's session (interpreter, cython, cc, ld)"""
        tot = 0.0
        tck = os.sysconf('SC_CLK_TCK')
        for d in os.listdir('/proc'):
            if not d.isdigit():
                continue
            try:
                f = open('/proc/%s/stat' % d).read()
                rest = f[f.rindex(')') + 2:].split()
                if int(rest[3]) == self.p.pid:          # session id
                    tot += (int(rest[11]) + int(rest[12])) / tck
            except Exception:
                pass
        return tot

    def wait(self, timeout=TIMEOUT):
        """returncode | 'hung' (no exit AND no CPU use by the whole process group: a wait that nobody will end) |
        'timeout' (still computing: the machine is slow, no verdict)"""
        t0 = time.time()
        last_cpu, idle_since = self.group_cpu(), time.time()
        while True:
            try:
                _, self.stderr = self.p.communicate(timeout=10)
                return self.p.returncode
            except subprocess.TimeoutExpired:
                pass
            cpu = self.group_cpu()
            if cpu - last_cpu > 0.3:
                last_cpu, idle_since = cpu, time.time()
            verdict = None
            if time.time() - idle_since > HANG_IDLE:
                verdict = 'hung'
            elif time.time() - t0 > timeout:
                verdict = 'timeout'
            if verdict:
                self.killgroup()
                _, self.stderr = self.p.communicate()
                return verdict

    def killgroup(self):
        try:
            os.killpg(self.p.pid, signal.SIGKILL)
        except ProcessLookupError:
            pass

    def result(self):
        try:
            return json.loads(self.resfile.read_text())
        except Exception:
            return None


def judge(ctx, exp, child, rc, sig, detail):
    """A request in a fresh process must exit 0 and return the right matrices."""
    if rc == 'timeout':
        ctx.skip('timeout in %s' % sig)
        return True
    if rc == 'hung':
        ctx.violation('request-hung %s' % sig, dict(detail, note='no exit and no CPU use by the process group for %d s' % HANG_IDLE))
        return False
    res = child.result()
    if rc != 0 or not res or not res.get('ok'):
        d = dict(detail)
        d.update(returncode=rc, stderr_tail=child.stderr[-1500:].decode('utf8', 'replace'))
        kind = 'interpreter-killed-signal%d' % (-rc) if isinstance(rc, int) and rc < 0 else 'request-failed'
        ctx.violation('%s %s' % (kind, sig), d)
        return False
    for fid, A in res['result'].items():
        if not np.allclose(np.array(A), exp[fid], atol=1e-12, rtol=0):
            ctx.violation('wrong-assembler %s form=%s' % (sig, fid), detail)
            return False
    return True


def snapshot(cache):
    """Relative paths + sizes of everything in the cache (for evidence/replay)."""
    out = []
    for root, _, files in os.walk(cache):
        for f in files:
            if f.startswith('result_') or f.endswith('.ndjson'):
                continue
            p = Path(root) / f
            try:
                out.append((str(p.relative_to(cache)), p.stat().st_size))
            except OSError:
                pass
    return sorted(out)


def so_files(cache):
    d = Path(cache) / 'pyiga' / 'modules'
    return sorted(p for p in d.glob('*.so')) if d.exists() else []


# ---------------------------------------------------------------------------------------------
# M1: crash at hook points

def scen_hook_faults(ctx, exp, stages, name):
    """SIGKILL at each stage in `stages` in turn (same cache), then a fresh process must succeed, twice."""
    cache = Path(ctx.scratch) / ('hf_' + name)
    cache.mkdir()
    hit = []
    for st in stages:
        c = Child(cache, ['mass'], fault=st, tag='f')
        rc = c.wait()
        if rc == -signal.SIGKILL:
            hit.append(st)
        elif rc == 0:
            ctx.skip('fault stage %s not reached (request completed)' % st)
        elif rc == 'timeout':
            ctx.skip('timeout at fault stage %s' % st)
            return
        else:
            judge(ctx, exp, c, rc, 'during-fault-run stages=%s' % (stages,), {'stage': st})
            return
    snap = snapshot(cache)
    sig = 'after-crash-at=%s' % '+'.join(stages)
    c = Child(cache, ['mass'], tag='r1')
    ok = judge(ctx, exp, c, c.wait(), sig, {'cache_after_crash': snap})
    if ok:
        c = Child(cache, ['mass', 'stiff'], tag='r2')
        judge(ctx, exp, c, c.wait(), sig + ' second-request', {'cache_after_crash': snap})
    ctx.case(('hook', tuple(stages)), nontrivial=bool(hit),
             sample={'scenario': 'SIGKILL at hook', 'stages': stages, 'killed_at': hit, 'cache_after_crash': snap[:6]})


# ---------------------------------------------------------------------------------------------
# M1: a build tool is interrupted while the requesting interpreter lives on (action ToolFails of CompileCache.tla)

def scen_tool_killed(ctx, exp, tool):
    """SIGKILL of one tool process (the C compiler proper `cc1`, the assembler, the linker) below the requesting
    interpreter -- what the OOM killer does.  The interrupted request may end with an exception; it must end (no hang),
    and the next requests in fresh processes must succeed without manual cache clearing."""
    cache = Path(ctx.scratch) / ('tk_' + tool)
    cache.mkdir()
    c = Child(cache, ['mass'], tag='t')
    killed, t0 = None, time.time()
    while killed is None and c.p.poll() is None and time.time() - t0 < TIMEOUT:
        for d in os.listdir('/proc'):
            if not d.isdigit():
                continue
            try:
                st = open('/proc/%s/stat' % d).read()
                comm = st[st.index('(') + 1:st.rindex(')')]
                rest = st[st.rindex(')') + 2:].split()
                if int(rest[3]) == c.p.pid and comm == tool:          # same session as the requesting interpreter
                    os.kill(int(d), signal.SIGKILL)
                    killed = int(d)
                    break
            except Exception:
                pass
        if killed is None:
            time.sleep(0.01)
    rc = c.wait()
    if killed is None:
        ctx.skip('no %s process seen below the requesting interpreter' % tool)
        if rc != 0:
            judge(ctx, exp, c, rc, 'clean-run-while-watching-for-%s' % tool, {})
        return
    if rc == 'timeout':
        ctx.skip('timeout after %s was killed' % tool)
        return
    if rc == 'hung':
        ctx.violation('request-hung after-tool-killed=%s' % tool, {'tool': tool})
        return
    snap = snapshot(cache)
    sig = 'after-tool-killed=%s' % tool
    detail = {'tool': tool, 'interrupted_request_returncode': rc, 'cache_after_interruption': snap,
              'interrupted_request_stderr_tail': c.stderr[-600:].decode('utf8', 'replace')}
    c1 = Child(cache, ['mass'], tag='r1')
    ok = judge(ctx, exp, c1, c1.wait(), sig, detail)
    if ok:
        c2 = Child(cache, ['mass', 'stiff'], tag='r2')
        judge(ctx, exp, c2, c2.wait(), sig + ' second-request', detail)
    ctx.case(('toolkill', tool), nontrivial=True,
             sample={'scenario': 'SIGKILL of a build tool, interpreter survives', 'tool': tool,
                     'interrupted_request_returncode': rc, 'cache_after_interruption': snap[:6]} if tool == 'cc1' else None)


# ---------------------------------------------------------------------------------------------
# M1: crash while an artefact is being written (inotify-triggered), plus prefixes of that artefact

def inotify_run(cache, forms, kill_suffix=None, kill_event='MODIFY'):
    """Run a compile under inotifywait; optionally SIGKILL the process group when a file with the given suffix
    receives kill_event.  Returns (rc, events, killed_path)."""
    moddir = Path(cache) / 'pyiga' / 'modules'
    moddir.mkdir(parents=True, exist_ok=True)
    mon = subprocess.Popen(['inotifywait', '-m', '-r', '-q', '--format', '%e|%w%f', str(moddir)],
                           stdout=subprocess.PIPE, stderr=subprocess.DEVNULL, text=True)
    time.sleep(0.3)
    child = Child(cache, forms, tag='w')
    events = []
    killed = [None]

    def reader():
        for line in mon.stdout:
            line = line.rstrip('\n')
            if '|' not in line:
                continue
            ev, path = line.split('|', 1)
            events.append((ev, path))
            if kill_suffix and killed[0] is None and path.endswith(kill_suffix) and kill_event in ev.split(','):
                killed[0] = path
                child.killgroup()
    t = threading.Thread(target=reader, daemon=True)
    t.start()
    rc = child.wait()
    time.sleep(0.2)
    mon.terminate()
    t.join(timeout=2)
    return child, rc, events, killed[0]


def scen_write_kill(ctx, exp, suffix):
    cache = Path(ctx.scratch) / ('wk' + suffix.replace('.', '_'))
    cache.mkdir()
    child, rc, events, path = inotify_run(cache, ['mass'], kill_suffix=suffix)
    if path is None:
        ctx.skip('no in-place write of a %s file observed' % suffix)
        if rc != 0:
            judge(ctx, exp, child, rc, 'clean-run-under-inotify', {})
        return
    snap = snapshot(cache)
    rel = os.path.relpath(path, cache)
    size = os.path.getsize(path) if os.path.exists(path) else 0
    variants = [('as-killed', None)]
    for nm, sz in (('empty', 0), ('64B', 64), ('4KiB', 4096), ('half', size // 2)):
        if sz < size or (sz == 0 and size > 0):
            variants.append((nm, sz))
    jobs = []
    for nm, sz in variants:
        c2 = Path(ctx.scratch) / ('wk%s_%s' % (suffix.replace('.', '_'), nm))
        shutil.copytree(cache, c2, symlinks=True)
        if sz is not None:
            with open(c2 / rel, 'r+b') as f:
                f.truncate(sz)
        jobs.append((nm, c2))
    for nm, c2 in jobs:
        sig = 'after-kill-while-writing=%s variant=%s' % (suffix, nm)
        c = Child(c2, ['mass'], tag='r')
        judge(ctx, exp, c, c.wait(), sig, {'file': rel, 'size_at_kill': size, 'cache': snap})
        ctx.case(('writekill', suffix, nm), sample={'scenario': 'SIGKILL of process group on first in-place write',
                                                    'file': rel, 'size_at_kill': size, 'variant': nm} if nm == 'half' else None)


def scen_inplace_final(ctx, exp):
    """Files written in place (IN_MODIFY) that survive a clean build under the same path: a crash while they
    are written leaves any prefix; emulate all-but-one-byte / garbage / later files missing."""
    cache = Path(ctx.scratch) / 'clean'
    cache.mkdir()
    child, rc, events, _ = inotify_run(cache, ['mass'])
    if not judge(ctx, exp, child, rc, 'clean-build', {}):
        return []
    ctx.case(('clean-build',), nontrivial=False)
    order = []
    modified = set()
    for ev, path in events:
        if path not in order and 'CREATE' in ev:
            order.append(path)
        if 'MODIFY' in ev.split(','):
            modified.add(path)
    inplace = [p for p in order if p in modified and os.path.isfile(p)]
    ctx.notes['inplace_written_files_surviving_clean_build'] = [os.path.relpath(p, cache) for p in inplace]
    for k, path in enumerate(inplace):
        rel = os.path.relpath(path, cache)
        size = os.path.getsize(path)
        later = [p for p in order[order.index(path) + 1:] if os.path.exists(p)]
        for nm in ('all-but-one-byte', 'half', '4KiB', 'garbage'):
            c2 = Path(ctx.scratch) / ('ip%d_%s' % (k, nm))
            shutil.copytree(cache, c2, symlinks=True)
            for lp in later:
                q = c2 / os.path.relpath(lp, cache)
                if q.is_dir():
                    shutil.rmtree(q, ignore_errors=True)
                elif q.exists():
                    q.unlink()
            with open(c2 / rel, 'r+b') as f:
                if nm == 'garbage':
                    f.seek(0)
                    f.write(os.urandom(min(size, 1 << 16)))
                else:
                    f.truncate({'all-but-one-byte': size - 1, 'half': size // 2, '4KiB': min(4096, size)}[nm])
            sig = 'after-crash-while-writing-inplace=%s variant=%s' % (Path(rel).suffix, nm)
            c = Child(c2, ['mass'], tag='r')
            judge(ctx, exp, c, c.wait(), sig, {'file': rel, 'size': size})
            ctx.case(('inplace', Path(rel).suffix, nm))
    return events


def scen_random_kill(ctx, exp, k, tmax):
    cache = Path(ctx.scratch) / ('rk%d' % k)
    cache.mkdir()
    rng = random.Random(ctx.seed * 1000 + k)
    kills = []
    for _ in range(rng.choice([1, 1, 2])):
        t = rng.uniform(0.5, tmax)
        c = Child(cache, ['mass'], tag='k')
        try:
            c.p.wait(timeout=t)
        except subprocess.TimeoutExpired:
            c.killgroup()
            kills.append(round(t, 2))
        c.wait()
    snap = snapshot(cache)
    c = Child(cache, ['mass'], tag='r')
    judge(ctx, exp, c, c.wait(), 'after-random-kill', {'kill_times': kills, 'cache': snap})
    ctx.case(('randomkill', k), nontrivial=bool(kills),
             sample={'scenario': 'SIGKILL at random time', 'kill_times': kills, 'cache_after': snap[:5]} if k == 0 else None)


# ---------------------------------------------------------------------------------------------
# M2: races validated against the trace specification

def scen_race(ctx, exp, name, plan):
    """plan: list of form-lists, one per process."""
    cache = Path(ctx.scratch) / ('race_' + name)
    cache.mkdir()
    trace = cache / 'trace.ndjson'
    rng = random.Random(ctx.seed * 77 + len(plan))
    kids = [Child(cache, forms, delay=rng.uniform(0, 0.4), trace=trace, tag='p%d' % i) for i, forms in enumerate(plan)]
    rcs = [k.wait() for k in kids]
    ok = True
    for i, (k, rc) in enumerate(zip(kids, rcs)):
        ok &= judge(ctx, exp, k, rc, 'race=%s proc=%d/%d' % (name, i, len(plan)), {'plan': plan})
    left = [p for p, _ in snapshot(cache) if not p.endswith('.so')]
    # trace validation
    evs = [json.loads(l) for l in trace.read_text().splitlines()] if trace.exists() else []
    if not evs:
        ctx.skip('race=%s: no hook events recorded (PYIGA_VERIF hooks missing?) -- judged by outcomes only' % name)
        ctx.case(('race', name))
        return None
    pids = sorted({e['pid'] for e in evs})
    procs = []
    for pid in pids:
        pe = sorted((e for e in evs if e['pid'] == pid), key=lambda e: e['seq'])
        procs.append([{'ev': e['ev'], 'mod': e.get('mod', ''), 'how': e.get('how', ''), 'sha': e.get('sha', '')} for e in pe])
    mods = sorted({e['mod'] for p in procs for e in p if e['mod']})
    tf = cache / 'trace.json'
    tf.write_text(json.dumps({'procs': procs}))
    cfg = cache / 'trace.cfg'
    cfg.write_text('SPECIFICATION TraceSpec\nCONSTANTS\n  Procs = {%s}\n  Srcs = {%s}\n  MaxCrash = %d\n  MaxReq = 8\n'
                   '  Legacy = FALSE\nINVARIANT NotAllConsumed\nINVARIANT TraceSafe\nCHECK_DEADLOCK FALSE\n' % (
                       ', '.join(str(i + 1) for i in range(len(procs))), ', '.join('"%s"' % m for m in mods), len(procs)))
    res = ctx.tlc('CompileTrace', str(cfg), must_pass=False, workers=1, dfs=True, env={'TRACE_FILE': str(tf)}, timeout=600)
    accepted = res.violated == 'NotAllConsumed'
    if res.violated == 'TraceSafe':
        ctx.violation('trace-unsafe race=%s' % name, {'procs': procs})
    elif not accepted:
        if res.error and 'timeout' in res.error:
            # the search for a witness interleaving did not finish (many processes, a loaded machine): no verdict on
            # this trace; the outcomes of the race itself (every request served, right matrices, one content per
            # entry) were judged above and below
            ctx.skip('trace validation of race %s timed out without a verdict (%d processes)' % (name, len(procs)))
        elif res.error:
            raise MachineryError('CompileTrace failed: %s\n%s' % (res.error, res.stdout[-1500:]))
        else:
            ctx.violation('trace-rejected race=%s: no interleaving of the recorded per-process events is a behaviour of '
                      'CompileCache' % name, {'procs': procs})
    # a content hash logged at import time must be unique per module name ("never overwritten by different content")
    shas = {}
    for p in procs:
        for e in p:
            if e['ev'] == 'ImportOk' and e['sha']:
                shas.setdefault(e['mod'], set()).add(e['sha'])
    for m, s in shas.items():
        if len(s) > 1:
            ctx.violation('module-content-changed race=%s' % name, {'mod': m, 'sha': sorted(s)})
    ctx.case(('race', name), sample={'scenario': 'race', 'plan': plan, 'events_per_process': [len(p) for p in procs],
                                     'accepted_by_CompileTrace': accepted, 'leftover_non_so_files': left[:5]})
    return procs


def scen_cold_start(ctx, exp, trials, nproc):
    """Cold cache: the module directory does not exist yet and `nproc` fresh interpreters make their first request at the
    same instant.  Each is killed at the 'builddir' fault point (right after it has created its private build directory), so
    the scenario costs no compilation; a process that fails BEFORE that point was broken by its competitors."""
    for t in range(trials):
        cache = Path(ctx.scratch) / ('cold_%d' % t)
        cache.mkdir()
        start = time.time() + 4.0 + 0.15 * nproc
        kids = []
        for i in range(nproc):
            c = Child.__new__(Child)
            c.cache, c.forms = cache, ['mass']
            env = dict(os.environ)
            env.update(XDG_CACHE_HOME=str(cache), PYTHONPATH=str(REPO), PYIGA_VERIF='1', PYTHONHASHSEED='0',
                       OMP_NUM_THREADS='1', PYIGA_VERIF_COMPILE_FAULT='builddir', C20_START_AT=repr(start))
            env.pop('PYIGA_VERIF_TRACE', None)
            c.resfile = cache / ('result_cold_%d_%d.json' % (t, i))
            env['C20_RESULT'] = str(c.resfile)
            c.p = subprocess.Popen([PY, CHILD, 'mass'], env=env, cwd=str(cache), stdout=subprocess.DEVNULL,
                                   stderr=subprocess.PIPE, start_new_session=True)
            c.stderr = b''
            kids.append(c)
        rcs = [k.wait(timeout=300) for k in kids]
        ctx.case(('cold-start', t), nontrivial=sum(1 for rc in rcs if rc == -signal.SIGKILL) >= 2,
                 sample={'scenario': 'cold-start race', 'processes': nproc, 'returncodes': [str(r) for r in rcs]} if t == 0 else None)
        for i, (k, rc) in enumerate(zip(kids, rcs)):
            if rc in (-signal.SIGKILL, 0, 'timeout'):
                continue
            judge(ctx, exp, k, rc, 'race=cold-start (module directory does not exist yet, %d first requests at once)' % nproc,
                  {'trial': t, 'proc': i, 'returncodes': [str(r) for r in rcs]})
            return


def scen_gated(ctx, exp, stage):
    """A behaviour of CompileCache.tla forced on the real code with the gate hook: process B makes its request and is
    held at `stage`; process A makes the same request and runs to completion (the entry is complete now); B is released.
    Both must succeed, the completed entry must still be the SAME file with the same content (NoOverwrite), and a fresh
    process must load it."""
    cache = Path(ctx.scratch) / ('gate_' + stage)
    cache.mkdir()
    gate = cache / 'gate_open'
    hang_exempt = True

    def child(tag, gated):
        c = Child.__new__(Child)
        c.cache, c.forms = cache, ['mass2']
        env = dict(os.environ)
        env.update(XDG_CACHE_HOME=str(cache), PYTHONPATH=str(REPO), PYIGA_VERIF='1', PYTHONHASHSEED='0', OMP_NUM_THREADS='1')
        for k in ('PYIGA_VERIF_COMPILE_FAULT', 'PYIGA_VERIF_TRACE', 'PYIGA_VERIF_COMPILE_GATE'):
            env.pop(k, None)
        if gated:
            env['PYIGA_VERIF_COMPILE_GATE'] = '%s:%s' % (stage, gate)
        c.resfile = cache / ('result_gate_%s.json' % tag)
        env['C20_RESULT'] = str(c.resfile)
        c.p = subprocess.Popen([PY, CHILD, 'mass2'], env=env, cwd=str(cache), stdout=subprocess.DEVNULL,
                               stderr=subprocess.PIPE, start_new_session=True)
        c.stderr = b''
        return c

    B = child('B', True)
    t0 = time.time()
    reached = Path(str(gate) + '.reached')
    while not reached.exists() and B.p.poll() is None and time.time() - t0 < TIMEOUT:
        time.sleep(0.1)
    if not reached.exists():
        B.killgroup()
        B.p.communicate()
        ctx.skip('gate stage %s not reached' % stage)
        return
    A = child('A', False)
    rcA = A.wait()
    sig = 'gated schedule: B held at %s while A completes' % stage
    ctx.case(('gated', stage), nontrivial=True,
             sample={'scenario': 'B held at a stage while A completes, then released', 'stage': stage} if stage == 'built' else None)
    okA = judge(ctx, exp, A, rcA, sig + ' (process A)', {})

    def entry():
        out = []
        for f in so_files(cache):
            st = f.stat()
            out.append((f.name, st.st_ino, st.st_size, hashlib.sha256(f.read_bytes()).hexdigest()[:16]))
        return sorted(out)
    before = entry()
    gate.write_text('open')
    # B sleeps in the gate by design: give it the time it spent there on top of the idle allowance
    rcB = B.wait()
    okB = judge(ctx, exp, B, rcB, sig + ' (process B, after release)', {'entry_after_A': before})
    after = entry()
    if okA and before and before != after:
        ctx.violation('completed-entry-replaced gate=%s' % stage, {'entry_after_A': before, 'entry_after_B': after})
    C = Child(cache, ['mass2'], tag='gC')
    judge(ctx, exp, C, C.wait(), sig + ' (fresh process afterwards)', {'entry': after})


def scen_clear_cache(ctx, exp):
    """CompileCache.ClearCache: one live interpreter compiles a form, the user clears the cache, the same interpreter
    compiles another form; then a fresh interpreter asks for both."""
    cache = Path(ctx.scratch) / 'clearcache'
    cache.mkdir()
    c = Child.__new__(Child)
    c.cache, c.forms = cache, ['mass3', 'mass5']
    env = dict(os.environ)
    env.update(XDG_CACHE_HOME=str(cache), PYTHONPATH=str(REPO), PYIGA_VERIF='1', PYTHONHASHSEED='0', OMP_NUM_THREADS='1',
               C20_CLEAR_BETWEEN='1')
    env.pop('PYIGA_VERIF_COMPILE_FAULT', None)
    env.pop('PYIGA_VERIF_TRACE', None)
    c.resfile = cache.parent / 'result_clearcache.json'
    env['C20_RESULT'] = str(c.resfile)
    c.p = subprocess.Popen([PY, CHILD, 'mass3', 'mass5'], env=env, cwd=str(cache.parent), stdout=subprocess.DEVNULL,
                           stderr=subprocess.PIPE, start_new_session=True)
    c.stderr = b''
    rc = c.wait()
    ctx.case('clear-cache', nontrivial=True)
    if not judge(ctx, exp, c, rc, 'after-clear-cache same-interpreter', {}):
        return
    c2 = Child(cache, ['mass3', 'mass5'], tag='cc2')
    judge(ctx, exp, c2, c2.wait(), 'after-clear-cache fresh-interpreter', {})


def scen_aged_race(ctx, exp):
    """The protocol may not depend on how long a build takes: while process A is in its compiler phase every file
    and directory in the cache is back-dated by an hour (as if the build had been running that long), then B
    requests the same form.  Both must succeed."""
    cache = Path(ctx.scratch) / 'race_aged'
    cache.mkdir()
    trace = cache / 'trace.ndjson'
    a = Child(cache, ['mass5'], trace=trace, tag='a')
    t0 = time.time()
    seen = False
    while time.time() - t0 < 300 and a.p.poll() is None:
        if trace.exists() and '"Cythonized"' in trace.read_text():
            seen = True
            break
        time.sleep(0.1)
    if not seen:
        a.wait()
        ctx.skip('aged race: compiler phase not observed (hooks missing?)')
        return
    stop = threading.Event()

    def age():      # keep every artefact (files and directories) one hour old for as long as the race lasts
        while not stop.is_set():
            old = time.time() - 3600
            for root, dirs, files in os.walk(cache / 'pyiga'):
                for nm in dirs + files:
                    try:
                        os.utime(os.path.join(root, nm), (old, old))
                    except OSError:
                        pass
            time.sleep(0.02)
    th = threading.Thread(target=age, daemon=True)
    th.start()
    b = Child(cache, ['mass5'], trace=trace, tag='b')
    ra, rb = a.wait(), b.wait()
    stop.set()
    th.join(timeout=2)
    judge(ctx, exp, a, ra, 'race=aged proc=A (artefacts back-dated by 1 h while compiling)', {})
    judge(ctx, exp, b, rb, 'race=aged proc=B (artefacts back-dated by 1 h while A compiles)', {})
    ctx.case(('race', 'aged'), sample=None)


def negative_trace_controls(ctx, procs):
    """Binding self-test: corrupt a recorded trace and require REJECT."""
    import copy
    muts = []
    a = copy.deepcopy(procs)          # two processes both claim to have linked the same module
    done = False
    for p in a:
        for e in p:
            if e['ev'] == 'Published' and e['how'] == 'exists' and not done:
                e['how'] = 'link'
                done = True
    if done:
        muts.append(('second-link', a))
    b = copy.deepcopy(procs)          # drop the Published event of the linking process
    for p in b:
        for e in list(p):
            if e['ev'] == 'Published' and e['how'] == 'link':
                p.remove(e)
                break
        else:
            continue
        break
    muts.append(('dropped-publish', b))
    for nm, pr in muts:
        mods = sorted({e['mod'] for p in pr for e in p if e['mod']})
        tf = Path(ctx.scratch) / ('neg_%s.json' % nm)
        tf.write_text(json.dumps({'procs': pr}))
        cfg = Path(ctx.scratch) / ('neg_%s.cfg' % nm)
        cfg.write_text('SPECIFICATION TraceSpec\nCONSTANTS\n  Procs = {%s}\n  Srcs = {%s}\n  MaxCrash = %d\n  MaxReq = 8\n'
                       '  Legacy = FALSE\nINVARIANT NotAllConsumed\nINVARIANT TraceSafe\nCHECK_DEADLOCK FALSE\n' % (
                           ', '.join(str(i + 1) for i in range(len(pr))), ', '.join('"%s"' % m for m in mods), len(pr)))
        res = ctx.tlc('CompileTrace', str(cfg), must_pass=False, workers=1, dfs=True, env={'TRACE_FILE': str(tf)})
        if res.violated == 'NotAllConsumed':
            raise MachineryError('corrupted trace (%s) was accepted: trace spec is vacuous' % nm)
        ctx.notes.setdefault('trace_negative_controls', []).append({'mutation': nm, 'rejected': True})


# ---------------------------------------------------------------------------------------------

def run(ctx):
    ctx.rule = ('one case = one crash/fault scenario followed by a request in a fresh interpreter, or one race of N '
                'processes; non-trivial = the fault really happened (process killed / file partially written)')
    ctx.assumptions = ['SIGKILL of the process group stands for power loss (no fsync modelling)',
                       'dlopen of a truncated ELF is observed, not modelled in detail',
                       'planted truncations are prefixes of files observed (inotify) to be written in place, hence reachable']
    if shutil.which('inotifywait') is None:
        raise MachineryError('inotifywait missing')
    exp = expected()
    scen_cold_start(ctx, exp, 6 if not ctx.thorough else 20, 8)      # before the heavy scenarios load the machine

    # design checks
    base = dict(MaxCrash=2, MaxReq=1, Legacy=False)
    fixed = write_cfg(ctx.scratch / 'cc_fixed.cfg', base, spec='FairSpec',
                      invariants=['NoPartialVisible', 'NoInterpreterDeath', 'NoFailedRequest', 'LoadedRight',
                                  'IndInv'],       # IndInv: the inductive invariant of the unbounded TLAPS proof
                      properties=['NoOverwrite', 'Recovery'],
                      subst={'Procs': '{1,2,3}' if ctx.thorough else '{1,2}', 'Srcs': '{"a","b"}'})
    # write_cfg's subst emits '<-' lines; sets are constants here, so patch to '='
    txt = Path(fixed).read_text().replace('Procs <- ', 'Procs = ').replace('Srcs <- ', 'Srcs = ')
    if ctx.thorough:
        txt = txt.replace('MaxReq = 1', 'MaxReq = 2')
    Path(fixed).write_text(txt)
    legacy_cfgs = []
    for inv in ('NoInterpreterDeath', 'NoFailedRequest'):
        p = ctx.scratch / ('cc_legacy_%s.cfg' % inv)
        p.write_text('SPECIFICATION Spec\nCONSTANTS\n  Procs = {1,2}\n  Srcs = {"a"}\n  MaxCrash = 1\n  MaxReq = 2\n'
                     '  Legacy = TRUE\nINVARIANT %s\nCHECK_DEADLOCK FALSE\n' % inv)
        legacy_cfgs.append((str(p), inv))
    p = ctx.scratch / 'cc_legacy_ow.cfg'
    p.write_text('SPECIFICATION Spec\nCONSTANTS\n  Procs = {1,2}\n  Srcs = {"a"}\n  MaxCrash = 0\n  MaxReq = 2\n'
                 '  Legacy = TRUE\nPROPERTY NoOverwrite\nCHECK_DEADLOCK FALSE\n')
    legacy_cfgs.append((str(p), 'NoOverwrite'))

    pool = ThreadPoolExecutor(24)
    futs = []
    # the bounded model is explored through CompileCacheProof (EXTENDS CompileCache, adds IndInv and the TLAPS proof of
    # the safety properties for ANY number of processes, digests, crashes and requests); tlapm re-checks the proof
    futs.append(pool.submit(ctx.tlc, 'CompileCacheProof', fixed, workers=4, timeout=3000))
    from ..common import run_tlaps
    futs.append(pool.submit(run_tlaps, ctx, 'CompileCacheProof',
                            'NoPartialVisible, NoInterpreterDeath, NoFailedRequest, LoadedRight, NoOverwrite for ANY '
                            'number of processes / digests / crashes / requests (inductive invariant IndInv)',
                            1500, ('CompileCache',)))
    for cfgp, inv in legacy_cfgs:
        futs.append(pool.submit(ctx.expect_violation, 'CompileCache', cfgp, inv, workers=2))

    # M1 scenarios
    singles = [[s] for s in STAGES]
    seqs = [['pyx_open', 'built'], ['cythonized', 'published', 'builddir']]
    if ctx.thorough:
        rng = random.Random(ctx.seed)
        for _ in range(10):
            seqs.append([rng.choice(STAGES) for _ in range(rng.choice([2, 3]))])
    for st in singles + seqs:
        futs.append(pool.submit(scen_hook_faults, ctx, exp, st, '_'.join(st) + '_%d' % len(futs)))
    for suf in ('.pyx', '.c', '.o', '.so'):
        futs.append(pool.submit(scen_write_kill, ctx, exp, suf))
    futs.append(pool.submit(scen_inplace_final, ctx, exp))
    for tool in (('cc1', 'ld') if not ctx.thorough else ('cc1', 'as', 'collect2', 'ld')):
        futs.append(pool.submit(scen_tool_killed, ctx, exp, tool))
    races = [('same4', [['mass']] * 4), ('mixed3', [['mass', 'mass2'], ['mass2'], ['mass3', 'mass']])]
    if ctx.thorough:
        races += [('same2', [['mass5']] * 2), ('same8', [['stiff']] * 8),
                  ('distinct4', [['mass'], ['mass2'], ['mass3'], ['stiff']]),
                  ('same16', [['mass2']] * 16)]
        for k in range(16):
            futs.append(pool.submit(scen_random_kill, ctx, exp, k, 9.0))
    else:
        for k in range(2):
            futs.append(pool.submit(scen_random_kill, ctx, exp, k, 7.0))
    futs.append(pool.submit(scen_aged_race, ctx, exp))
    futs.append(pool.submit(scen_clear_cache, ctx, exp))
    for st in (['import_fail', 'built', 'published'] if not ctx.thorough else
               ['import_fail', 'builddir', 'pyx_written', 'cythonized', 'built', 'published', 'cleaned']):
        futs.append(pool.submit(scen_gated, ctx, exp, st))
    rf = [pool.submit(scen_race, ctx, exp, nm, plan) for nm, plan in races]
    for f in futs:
        f.result()
    procs0 = None
    for f in rf:
        pr = f.result()
        if procs0 is None and pr and any(e['ev'] == 'Published' and e['how'] == 'exists' for p in pr for e in p):
            procs0 = pr
    if procs0 is None:
        procs0 = next((f.result() for f in rf if f.result()), None)
    if procs0 is None:
        if not ctx.violations:
            raise MachineryError('no hook trace could be validated (hooks in pyiga/compile.py missing)')
    else:
        negative_trace_controls(ctx, procs0)
    pool.shutdown()
