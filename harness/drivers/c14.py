"""C14 -- multipatch gluing: spec/Multipatch.tla explored by TLC, every Finalize transition replayed on the
real pyiga.assemble.Multipatch (M1), partition-level comparison."""
import itertools
from concurrent.futures import ThreadPoolExecutor

import json
import numpy as np

from ..common import MachineryError, write_cfg

INVS = ['ClosureOK', 'GapFree', 'SdofsConsistent', 'EmitComplex']


def cfgs(ctx):
    base = dict(Kind='lattice', D=2, W1=1, W2=2, W3=1, NN=2, ReflSeed=0, K=0, Legacy=False,
                MaxJoins=4, MaxRep=2, DoEmit=True)
    out = []

    def add(name, workers=2, sim=None, **kw):
        """sim = number of random walks (TLC -simulate) instead of the breadth-first exploration of every history"""
        c = dict(base)
        c.update(kw)
        out.append((name, c, workers, sim))
    add('2x1', W1=1, W2=2, MaxJoins=2)
    add('2x1-refl', W1=1, W2=2, ReflSeed=0b0110, MaxJoins=2)
    add('2x2', W1=2, W2=2, MaxJoins=5)
    add('2x2-refl', W1=2, W2=2, ReflSeed=0b10011100, MaxJoins=4, MaxRep=1)
    add('ring3', Kind='ring', K=3, MaxJoins=4)
    add('ring4', Kind='ring', K=4, MaxJoins=4, MaxRep=1)
    add('2x2-p2', W1=2, W2=2, NN=3, MaxJoins=4, MaxRep=1)
    # closed bands (annuli): two patches sharing two faces; three patches in a cycle without a common vertex
    add('band2', Kind='band', K=2, NN=3, MaxJoins=3)
    add('band3', Kind='band', K=3, MaxJoins=4, MaxRep=1)
    # 3-D, interface normal to the MIDDLE axis, asymmetric flips (one of the two face axes reflected)
    add('1x2x1-3d-flipA', D=3, W1=1, W2=2, W3=1, ReflSeed=8, MaxJoins=2)
    add('1x2x1-3d-flipB', D=3, W1=1, W2=2, W3=1, ReflSeed=32, MaxJoins=2)
    add('2x1x1-3d-flip', D=3, W1=2, W2=1, W3=1, ReflSeed=16, MaxJoins=1)
    # an interface BOTH of whose end vertices are interior cross points (3x2 lattice, middle interface), with dofs in the
    # interior of the interface (degree 2): random orders of the seven joins (one walk in eight makes all seven joins
    # before it finalizes; breadth-first over the 13700 histories is in the thorough tier)
    add('3x2-p2', W1=2, W2=3, NN=3, MaxJoins=7, MaxRep=1, workers=1, sim=1000)
    if ctx.thorough:
        add('2x2-rep', W1=2, W2=2, MaxJoins=8, MaxRep=2, workers=4)
        add('3x2', W1=2, W2=3, MaxJoins=7, MaxRep=1, workers=6)
        add('3x2-refl', W1=2, W2=3, ReflSeed=0b011011000110, MaxJoins=7, MaxRep=1, workers=6)
        add('3x2-p2-all', W1=2, W2=3, NN=3, MaxJoins=7, MaxRep=1, workers=8)
        add('3x2-p2-refl', W1=2, W2=3, NN=3, ReflSeed=0b011011000110, MaxJoins=7, MaxRep=1, workers=1, sim=2000)
        add('ring5', Kind='ring', K=5, MaxJoins=5, MaxRep=1, workers=4)
        add('ring6', Kind='ring', K=6, MaxJoins=6, MaxRep=1, workers=6)
        add('ring4-p2', Kind='ring', K=4, NN=3, MaxJoins=5, MaxRep=2, workers=4)
        add('2x1x1-3d', D=3, W1=1, W2=1, W3=2, MaxJoins=2)
        add('2x2x1-3d-refl', D=3, W1=1, W2=2, W3=2, ReflSeed=0b101001110010, MaxJoins=4, MaxRep=1, workers=4)
    return out


def make_patches(cx):
    """Real patches for a COMPLEX record: (kvs, geo) with geo realising the spec's lattice points."""
    from pyiga import bspline, geometry
    D, NN = cx['D'], cx['NN']
    kv = bspline.make_knots(NN - 1, 0.0, 1.0, 1)
    kvs = D * (kv,)
    patches = []
    for p in range(cx['NP']):
        if cx['kind'] == 'ring':
            geo = geometry.unit_square() if D == 2 else geometry.unit_cube()
            patches.append((kvs, geo))
            continue
        if cx['kind'] == 'band':
            # sector k of an annulus; control points from ONE table of M angles (shared faces coincide bitwise, also at the
            # closing seam); axis 0 = radial, axis 1 = angular (clockwise, so that det J > 0)
            K = cx['NP']
            M = K * (NN - 1)
            ang = [-2.0 * np.pi * j / M for j in range(M)]
            tab = [(np.cos(a), np.sin(a)) for a in ang]
            coeffs = np.zeros((NN, NN, 2))
            for i0 in range(NN):
                r = 1.0 + i0 / (NN - 1)
                for i1 in range(NN):
                    cth, sth = tab[(p * (NN - 1) + i1) % M]
                    coeffs[i0, i1] = [r * cth, r * sth]
            patches.append((kvs, bspline.BSplineFunc(kvs, coeffs)))
            continue
        cell = np.unravel_index(p, cx['W'])
        refl = cx['refl'][p]
        coeffs = np.zeros(D * (NN,) + (D,))
        for mi in itertools.product(range(NN), repeat=D):
            pt = [cell[a] * (NN - 1) + (NN - 1 - mi[a] if refl[a] else mi[a]) for a in range(D)]
            # physical coordinates in x-first order; axis a of the patch corresponds to coordinate D-1-a
            coeffs[mi] = [pt[D - 1 - c] / (NN - 1) for c in range(D)]
        patches.append((kvs, bspline.BSplineFunc(kvs, coeffs)))
    return patches


BDNAMES = {2: {(1, 0): 'left', (1, 1): 'right', (0, 0): 'bottom', (0, 1): 'top'},
           3: {(2, 0): 'left', (2, 1): 'right', (1, 0): 'bottom', (1, 1): 'top', (0, 0): 'front', (0, 1): 'back'}}


def replay(ctx, name, cx, fin, patches, use_names):
    from pyiga import assemble
    D = cx['D']
    N = cx['NN'] ** D
    hist = fin['hist']
    sig_base = 'complex=%s hist=%s' % (name, hist)
    try:
        MP = assemble.Multipatch(patches)
        for k in hist:
            itf = cx['interfaces'][k - 1]
            b1, b2 = (itf['ax1'], itf['s1']), (itf['ax2'], itf['s2'])
            if use_names:
                b1, b2 = BDNAMES[D][b1], BDNAMES[D][b2]
            flip = tuple(itf['flip'])
            if not any(flip) and use_names:
                MP.join_boundaries(itf['p1'], b1, itf['p2'], b2)
            else:
                MP.join_boundaries(itf['p1'], b1, itf['p2'], b2, flip)
            if len(hist) % 2 == 1 or use_names:
                # finalize() is a query, not an end state: build incrementally -- number, look at the numbering
                # (index maps, Dirichlet conditions), then declare the next interface
                MP.finalize()
                for p in range(cx['NP']):
                    MP.patch_to_global_idx(p)
                    MP.patch_to_global(p)
                try:
                    MP.compute_dirichlet_bcs([(0, (0, 0), lambda *X: 1.0 + 0 * X[0])])
                except Exception:
                    pass
        MP.finalize()
        gidx = np.concatenate([MP.patch_to_global_idx(p) for p in range(cx['NP'])])
        numdofs = int(MP.numdofs)
        Xs = [MP.patch_to_global(p) for p in range(cx['NP'])]
    except Exception as ex:
        ctx.violation('exception %s %s' % (type(ex).__name__, sig_base),
                      {'complex': cx, 'fin': fin, 'error': repr(ex)})
        return
    label = fin['label']
    # partition equality: same global index <=> same class label
    m1, m2 = {}, {}
    ok = len(gidx) == len(label)
    for g, l in zip(gidx.tolist(), label):
        if m1.setdefault(g, l) != l or m2.setdefault(l, g) != g:
            ok = False
    if not ok:
        ctx.violation('partition-mismatch ' + sig_base,
                      {'complex': name, 'fin': fin, 'gidx': gidx.tolist()})
        return
    if numdofs != fin['numdofs'] or sorted(set(gidx.tolist())) != list(range(numdofs)):
        ctx.violation('numbering-not-gapfree ' + sig_base,
                      {'complex': name, 'fin': fin, 'gidx': gidx.tolist(), 'numdofs': numdofs})
        return
    NPt = cx['NP']
    for p, X in enumerate(Xs):
        Xd = X.toarray()
        if Xd.shape != (numdofs, N) or not np.all((Xd == 0) | (Xd == 1)) or \
                not np.all(Xd.sum(axis=0) == 1) or not np.array_equal(Xd.T @ Xd, np.eye(N)):
            ctx.violation('patch_to_global-not-01 ' + sig_base, {'complex': name, 'fin': fin, 'patch': p})
            return
        # the matrix is the index map; the j_global form places it in the columns of patch p; global_to_patch is its
        # transpose and left inverse
        try:
            I = np.asarray(MP.patch_to_global_idx(p))
            E = np.zeros((numdofs, N))
            E[I, np.arange(N)] = 1
            Xg = MP.patch_to_global(p, j_global=True).toarray()
            Eg = np.zeros((numdofs, NPt * N))
            Eg[:, p * N:(p + 1) * N] = E
            Gp = MP.global_to_patch(p).toarray()
            if not np.array_equal(Xd, E) or not np.array_equal(Xg, Eg) or not np.array_equal(Gp, E.T) or \
                    not np.array_equal(Gp @ Xd, np.eye(N)):
                ctx.violation('patch_to_global/global_to_patch inconsistent with patch_to_global_idx ' + sig_base,
                              {'complex': name, 'fin': fin, 'patch': p})
                return
        except Exception as ex:
            ctx.violation('exception %s patch_to_global(j_global)/global_to_patch %s' % (type(ex).__name__, sig_base),
                          {'error': repr(ex)})
            return
    # boundary data address the glued dofs: the Dirichlet indices of a face are the global indices (just verified against
    # the model's classes) of the face dofs
    try:
        for p in sorted({0, NPt - 1}):
            bd = (0, 0)
            bc = MP.compute_dirichlet_bcs([(p, bd, lambda *X: 1.0 + 0 * X[0])])
            loc = assemble.boundary_dofs(patches[p][0], bd, ravel=True)
            wantidx = sorted(set(int(gidx[p * N + int(i)]) for i in loc))
            if sorted(int(i) for i in bc[0]) != wantidx or not np.allclose(bc[1], 1.0):
                ctx.violation('compute_dirichlet_bcs addresses the wrong global dofs ' + sig_base,
                              {'complex': name, 'fin': fin, 'patch': p, 'got': [int(i) for i in bc[0]], 'expected': wantidx})
                return
    except Exception as ex:
        ctx.violation('exception %s compute_dirichlet_bcs %s' % (type(ex).__name__, sig_base), {'error': repr(ex)})
        return
    # Multipatch(patches, automatch=True) = all detected interfaces joined + finalize: the numbering of the full history
    # (only lattice complexes are embedded geometrically; the rings are abstract gluings whose patches coincide in space)
    if cx['kind'] in ('lattice', 'band') and sorted(set(hist)) == list(range(1, len(cx['interfaces']) + 1)) and len(hist) == len(cx['interfaces']):
        try:
            MA = assemble.Multipatch(patches, automatch=True)
            ga = np.concatenate([MA.patch_to_global_idx(p) for p in range(NPt)])
            m1, m2 = {}, {}
            oka = int(MA.numdofs) == numdofs
            for g, l in zip(ga.tolist(), label):
                if m1.setdefault(g, l) != l or m2.setdefault(l, g) != g:
                    oka = False
            if not oka:
                ctx.violation('automatch-partition-mismatch complex=%s' % name, {'fin': fin, 'gidx': ga.tolist()})
        except Exception as ex:
            ctx.violation('exception %s Multipatch(automatch=True) complex=%s' % (type(ex).__name__, name), {'error': repr(ex)})


def check_detect(ctx, name, cx, patches, perm=None):
    """detect_interfaces must find exactly the spec's interface list (faces + flips)."""
    from pyiga import assemble
    NP = cx['NP']
    perm = list(perm) if perm is not None else list(range(NP))
    pp = [patches[q] for q in perm]          # new patch j is old patch perm[j]
    inv = {q: j for j, q in enumerate(perm)}
    try:
        connected, found = assemble.detect_interfaces(pp)
    except Exception as ex:
        ctx.violation('exception detect_interfaces %s complex=%s perm=%s' % (type(ex).__name__, name, perm),
                      {'error': repr(ex)})
        return

    def canon(p1, b1, p2, b2, flip):
        a = (p1, tuple(int(x) for x in b1))
        b = (p2, tuple(int(x) for x in b2))
        if b < a:
            a, b = b, a
        return (a, b, tuple(bool(f) for f in flip))
    exp = {canon(inv[i['p1']], (i['ax1'], i['s1']), inv[i['p2']], (i['ax2'], i['s2']), i['flip'])
           for i in cx['interfaces']}
    got = {canon(*f) for f in found}
    ctx.case(('detect', name, tuple(perm)), sample=None)
    if exp != got or not connected:
        ctx.violation('detect_interfaces-mismatch complex=%s perm=%s' % (name, perm),
                      {'expected': sorted(map(str, exp)), 'found': sorted(map(str, got)), 'connected': connected})
    # automatch must give the closure of the full complex
    try:
        MP = assemble.Multipatch(pp, automatch=True)
        n = int(MP.numdofs)
    except Exception as ex:
        ctx.violation('exception automatch %s complex=%s perm=%s' % (type(ex).__name__, name, perm),
                      {'error': repr(ex)})
        return
    W, NN = cx['W'], cx['NN']
    want = int(np.prod([w * (NN - 1) + 1 for w in W])) if cx['kind'] == 'lattice' else NN * cx['NP'] * (NN - 1)   # band: closed
    if n != want:
        ctx.violation('automatch-numdofs complex=%s perm=%s' % (name, perm), {'numdofs': n, 'expected': want})


def check_system(ctx, name, cx, patches, fullfin):
    """Conforming decomposition vs. undivided domain (numeric end-to-end), shipped assemblers only."""
    from pyiga import assemble, assemblers, bspline, geometry
    D, NN, W = cx['D'], cx['NN'], cx['W']
    if D != 2:
        return
    p = NN - 1
    try:
        MP = assemble.Multipatch(patches, automatch=True)
        f = lambda x, y: 2.0 + 0.0 * x     # constant: the shipped functional assembler takes f in parametric coordinates
        # one args dict for everything, as in a user script: first the undivided reference domain (assemble() stores the
        # keyword inputs, e.g. geo=..., into the dict it is given), then the multipatch system
        args = {'f': f}
        kvs_ref = tuple(bspline.make_knots(p, 0.0, 1.0, W[a], mult=p) for a in range(D))
        geo_ref = geometry.tensor_product(geometry.line_segment(0.0, float(W[0])), geometry.line_segment(0.0, float(W[1])))
        assemble.assemble(assemblers.StiffnessAssembler2D, kvs_ref, args=args, geo=geo_ref)
        A, b = MP.assemble_system(assemblers.StiffnessAssembler2D, assemblers.L2FunctionalAssembler2D,
                                  args=args)
        A = A.toarray()
        gidx = [MP.patch_to_global_idx(q) for q in range(cx['NP'])]
    except Exception as ex:
        ctx.violation('exception assemble_system %s complex=%s' % (type(ex).__name__, name), {'error': repr(ex)})
        return
    # undivided domain: C^0 at patch interfaces (interior knots of multiplicity p)
    kvs1 = tuple(bspline.make_knots(p, 0.0, 1.0, W[a], mult=p) for a in range(D))
    geo1 = geometry.tensor_product(geometry.line_segment(0.0, float(W[0])), geometry.line_segment(0.0, float(W[1])))
    A1 = assemble.stiffness(kvs1, geo1).toarray()
    b1 = assemble.inner_products(kvs1, f, f_physical=True, geo=geo1).ravel()
    n1 = tuple(kv.numdofs for kv in kvs1)
    # single-patch dof of a lattice point: index per axis = point coordinate
    refl = cx['refl']
    g2s = {}
    for q in range(cx['NP']):
        cell = np.unravel_index(q, W)
        for i in range(NN ** D):
            mi = np.unravel_index(i, D * (NN,))
            pt = [cell[a] * (NN - 1) + (NN - 1 - mi[a] if refl[q][a] else mi[a]) for a in range(D)]
            g2s[int(gidx[q][i])] = int(np.ravel_multi_index(pt, n1))
    n = A.shape[0]
    if n != A1.shape[0] or len(g2s) != n:
        ctx.violation('system-size complex=%s' % name, {'n_mp': n, 'n_single': A1.shape[0]})
        return
    perm = np.array([g2s[g] for g in range(n)])
    ctx.case(('system', name), sample=None)
    if not (np.allclose(A, A1[np.ix_(perm, perm)], atol=1e-10, rtol=0) and np.allclose(b, b1[perm], atol=1e-10, rtol=0)):
        ctx.violation('system-mismatch complex=%s' % name,
                      {'maxdiff_A': float(abs(A - A1[np.ix_(perm, perm)]).max()),
                       'maxdiff_b': float(abs(b - b1[perm]).max())})


def run(ctx):
    ctx.rule = ('TLC explores every history of join_boundaries calls (bounded length/repetition) on each patch '
                'complex; one case = one Finalize transition (one per distinct code-shaped state) replayed on the '
                'real Multipatch and compared at partition level; non-trivial = history with >= 2 joins')
    ctx.assumptions = ['the code state after a join history is a function of (shared_per_patch, shared_dofs), '
                       'which is the model state; reflections only (join_boundaries cannot express axis swaps)']
    todo = cfgs(ctx)

    def one(item):
        name, consts, workers, sim = item
        # random walks over the large complexes only GENERATE behaviours (the closure invariants, evaluated in every state,
        # cost 0.3 s per state there; they are checked exhaustively on the smaller complexes): the expected partition
        # of each walk is still the spec's ClassLabel, computed once at Finalize
        cfg = write_cfg(ctx.scratch / ('mp_%s.cfg' % name), consts, invariants=INVS if not sim else ['EmitComplex'], view='View')
        if sim:
            return name, ctx.tlc('Multipatch', cfg, workers=1, simulate=sim, depth=consts['MaxJoins'] + 2,
                                 seed=int(ctx.seed) + 14, timeout=3000)
        return name, ctx.tlc('Multipatch', cfg, workers=workers, timeout=3000)

    with ThreadPoolExecutor(4 if ctx.thorough else 4) as ex:
        results = list(ex.map(one, todo))

    # negative control: the pre-fix loop body must violate the closure property
    legacy = dict(Kind='lattice', D=2, W1=2, W2=2, W3=1, NN=2, ReflSeed=0, K=0, Legacy=True,
                  MaxJoins=4, MaxRep=1, DoEmit=False)
    cfg = write_cfg(ctx.scratch / 'mp_legacy.cfg', legacy, invariants=INVS[:3], view='View')
    ctx.expect_violation('Multipatch', cfg, workers=2)

    for name, res in results:
        cxs = res.recs('COMPLEX')
        fins = res.recs('FIN')
        # random walks re-emit the complex at every start and may repeat a history
        cxs = [json.loads(t) for t in sorted({json.dumps(c0, sort_keys=True) for c0 in cxs})]
        seen_h, uniq = set(), []
        for f0 in fins:
            if tuple(f0['hist']) not in seen_h:
                seen_h.add(tuple(f0['hist']))
                uniq.append(f0)
        fins = uniq
        if len(cxs) != 1 or not fins:
            raise MachineryError('no behaviours generated for %s' % name)
        cx = cxs[0]
        patches = make_patches(cx)
        for n, fin in enumerate(fins):
            replay(ctx, name, cx, fin, patches, use_names=(n % 2 == 0))
            ctx.case((name, tuple(fin['hist'])), nontrivial=len(fin['hist']) >= 2,
                     sample={'complex': name, 'hist': fin['hist'], 'numdofs': fin['numdofs']} if n == len(fins) // 2 else None)
        if cx['kind'] == 'band':
            check_detect(ctx, name, cx, patches)
        if cx['kind'] == 'lattice':
            check_detect(ctx, name, cx, patches)
            if ctx.thorough or cx['NP'] <= 4:
                rng = np.random.RandomState(ctx.seed + 1)
                for _ in range(3 if ctx.thorough else 1):
                    check_detect(ctx, name, cx, patches, perm=rng.permutation(cx['NP']))
            full = [f for f in fins if f['numdofs'] == int(np.prod([w * (cx['NN'] - 1) + 1 for w in cx['W']]))]
            check_system(ctx, name, cx, patches, full)
    ctx.exhaustive = True
    ctx.notes['random_walk_configurations'] = [t[0] for t in todo if t[3]]
