"""C13 -- form-compilation caching never substitutes a different assembler.

1. design check of spec/VFormCache.tla on the abstract attribute universe (VFormCacheAbs), with the pre-fix key and
   the mode-less key as negative controls;
2. M2: key classes (vf.hash()), source classes (compile.generate per mode), shipped-assembler freshness measured on
   the real code in a fresh interpreter -> VFormCacheData: TLC explores all request sequences (length <= 2..3) over the
   measured tables and emits every unsound behaviour (= a pair of forms sharing a cache entry with different code);
3. M1: every behaviour with a cache hit, plus a sample of the others, is replayed on the real compile_vform (C compiler
   stubbed) and the returned assembler must carry the requested form's source;
4. identical source <-> identical on-disk module name, stable across PYTHONHASHSEED values and processes."""
import json
import random
import subprocess
from pathlib import Path

from ..common import PY, REPO, VERIF, MachineryError, write_cfg
from .. import forms

CHILD = str(VERIF / 'harness' / 'c13_child.py')


def child(ctx, mode, payload, seed=0, tag=''):
    inp = ctx.scratch / ('c13_%s_%s_in.json' % (mode, tag))
    out = ctx.scratch / ('c13_%s_%s_out.json' % (mode, tag))
    inp.write_text(json.dumps(payload))
    cache = ctx.scratch / ('xdg_%s_%s' % (mode, tag))
    cache.mkdir(exist_ok=True)
    import os
    env = dict(os.environ)
    env.update(PYTHONPATH=str(REPO) + ':' + str(VERIF), PYTHONHASHSEED=str(seed), XDG_CACHE_HOME=str(cache))
    r = subprocess.run([PY, CHILD, mode, str(inp), str(out)], env=env, stdout=subprocess.PIPE,
                       stderr=subprocess.PIPE, text=True, timeout=1200)
    if r.returncode != 0 or not out.exists():
        raise MachineryError('c13 child (%s) failed:\n%s' % (mode, r.stderr[-3000:]))
    return json.loads(out.read_text())


def classes(values):
    ids, out = {}, []
    for v in values:
        out.append(ids.setdefault(v, len(ids) + 1))
    return out, ids


def run(ctx):
    ctx.rule = ('case = one request sequence replayed on the real compile_vform (C compiler stubbed) or one measured '
                '(form, mode) table row; non-trivial = sequence with a cache hit between different requests or forms')
    ctx.assumptions = ['the generated source is taken as the identity of an assembler (two forms may share an entry iff '
                       'their generated code is identical)', 'universe = harness/forms.py (one-token mutants along '
                       'every attribute the property names)']
    # 1. design check + negative controls
    consts = dict(KeyIgnores=set(), ModeInKey=True, MaxLen=3, EmitBeh=False, SameKeyOnly=False)
    cfg = write_cfg(ctx.scratch / 'abs.cfg', consts, invariants=['Sound', 'Functional'], view='View')
    ctx.tlc('VFormCacheAbs', cfg, workers=4)
    for nm, kw in (('legacy-key', dict(KeyIgnores={'fn', 'bdry'})), ('no-mode', dict(ModeInKey=False)),
                   ('no-space', dict(KeyIgnores={'space'}))):
        c = dict(consts)
        c.update(kw)
        cfg = write_cfg(ctx.scratch / ('abs_%s.cfg' % nm), c, invariants=['Sound'], view='View')
        ctx.expect_violation('VFormCacheAbs', cfg, 'Sound', workers=2)

    # 2. measured tables
    U = forms.universe()
    tab = child(ctx, 'tables', {'universe': U}, seed=0, tag='s0')
    keys, kid = classes(tab['keys'])
    flat = [s for pair in tab['srcs'] for s in pair if s is not None]
    _, sid = classes(flat)
    srcs = [[sid.get(s, 0) if s is not None else 0 for s in pair] for pair in tab['srcs']]
    pre = []
    for p in tab['preseed']:
        k = kid.get(p['key'])
        if k is None:
            k = kid.setdefault(p['key'], len(kid) + 1)
        if p['fresh'] in ('identical', 'reordered'):
            s = sid.setdefault(p['std_src'], len(sid) + 1)
        else:
            s = len(sid) + 1000 + len(pre)        # a source class nobody generates: stale shipped code
        pre.append([k, s])
    for name, verdict in tab['fresh'].items():
        ctx.case(('fresh', name), nontrivial=True,
                 sample={'freshness': name, 'verdict': verdict} if name == 'StiffnessAssembler3D' else None)
        if verdict == 'different':
            ctx.violation('shipped-stale %s' % name, {'what': 'shipped text differs from what the generator produces today '
                                                              '(beyond the order of statements)'})
    data = {'nf': len(U), 'key': keys, 'src': srcs, 'preseed': pre}
    df = ctx.scratch / 'cache_data.json'
    df.write_text(json.dumps(data))
    maxlen = 3 if ctx.thorough else 2
    cfg = write_cfg(ctx.scratch / 'data.cfg', dict(MaxLen=maxlen, EmitBeh=True, SameKeyOnly=False), invariants=['Functional'],
                    view='View', action_constraints=['EmitAction'])
    res = ctx.tlc('VFormCacheData', cfg, workers=1, env={'CACHE_DATA': str(df)}, must_pass=False, timeout=3000)
    if not res.ok and res.violated != 'Functional':
        raise MachineryError('VFormCacheData did not complete: %s\n%s' % (res.error, res.stdout[-2000:]))
    names = [d['name'] for d in U]
    seen = set()
    for h in res.recs('UNSOUND'):
        last = h[-1]
        # the entry that was hit was created by an earlier request with the same key
        culprit = next((e for e in h[:-1] if keys[e['f'] - 1] == keys[last['f'] - 1] and e['m'] == last['m']), None)
        a = names[culprit['f'] - 1] if culprit else 'shipped-assembler'
        b = names[last['f'] - 1]
        pair = tuple(sorted([a, b])) + (last['m'],)
        if pair in seen:
            continue
        seen.add(pair)
        ctx.violation('cache-collision forms=%s|%s on_demand=%d' % (pair[0], pair[1], last['m']),
                      {'history': [{'form': names[e['f'] - 1], 'on_demand': e['m'], 'response_class': e['resp'],
                                    'expected_class': e['want']} for e in h],
                     'attr': [d['attr'] for d in U if d['name'] in pair[:2]]})
    for i, d in enumerate(U):
        for m in (0, 1):
            ctx.case(('table', d['name'], m), nontrivial=srcs[i][m] != 0)

    # 3. replay
    behs = res.recs('BEH') + res.recs('UNSOUND')
    seqs, expect = [], []
    seen = set()
    for h in behs:
        key = tuple((e['f'], e['m']) for e in h)
        if key in seen or len(h) > 3:
            continue
        seen.add(key)
        seqs.append([[e['f'] - 1, e['m']] for e in h])
        expect.append(h)
    import random
    rng = random.Random(ctx.seed)
    cap = 1500 if ctx.thorough else 200
    if len(seqs) > cap:
        idx = sorted(rng.sample(range(len(seqs)), cap))
        seqs = [seqs[i] for i in idx]
        expect = [expect[i] for i in idx]
    # plus random sequences without any hit (responses must simply be the requested sources)
    for _ in range(60 if ctx.thorough else 20):
        s = [[rng.randrange(len(U)), rng.randrange(2)] for _ in range(3)]
        seqs.append(s)
        expect.append(None)
    rep = child(ctx, 'replay', {'universe': U, 'sequences': seqs}, seed=0, tag='r')
    src_by_id = {}
    for s, i in sid.items():
        src_by_id[i] = s
    shipped_src = {p['cls']: p['std_src'] for p in tab['preseed'] if p['fresh'] in ('identical', 'reordered')}
    for seq, h, out in zip(seqs, expect, rep['results']):
        if out is None:
            raise MachineryError('replay child lost a sequence')
        label = [(names[f], m) for f, m in seq]
        hit = False
        for step, ((f, m), o) in enumerate(zip(seq, out)):
            want = tab['srcs'][f][m]
            if o['kind'] == 'error':
                got = None
            elif o['kind'] == 'shipped':
                got = shipped_src.get(o['cls'], '<stale shipped %s>' % o['cls'])
                hit = True
            else:
                got = o['src']
            if got != want:
                # locate an earlier request of the sequence that produced this source
                ctx.violation('wrong-assembler-returned request=%s on_demand=%d after=%s' % (
                    names[f], m, [l for l in label[:step]]),
                    {'sequence': label, 'step': step, 'returned': ('error' if got is None else got[-300:]),
                     'expected': ('error' if want is None else want[-300:])})
                break
        nontriv = h is not None and len(seq) >= 2
        ctx.case(('replay', tuple(map(tuple, seq))), nontrivial=nontriv,
                 sample={'sequence': label, 'all responses carried the requested source': True} if len(ctx.samples) < 4 and nontriv else None)

    # 3a. form OBJECTS: request / add / request histories (spec/VFormObjects.tla)
    ocfg = write_cfg(ctx.scratch / 'obj.cfg', dict(MaxLen=4, MaxTerms=3, AllowMutateFrozen=False, DoEmit=True),
                     invariants=['Sound', 'FrozenMeansMemo', 'EmitBeh'])
    ores = ctx.tlc('VFormObjects', ocfg, workers=1)
    ncfg = write_cfg(ctx.scratch / 'obj_neg.cfg', dict(MaxLen=4, MaxTerms=3, AllowMutateFrozen=True, DoEmit=False),
                     invariants=['Sound'])
    ctx.expect_violation('VFormObjects', ncfg, 'Sound', workers=1)
    behs = ores.recs('OBJ')
    jobs = [{'base': b, 'beh': h} for h in behs for b in ('mass', 'mass2')]
    orep = child(ctx, 'objects', {'universe': [], 'behaviours': jobs}, seed=0, tag='o')
    for job, out in zip(jobs, orep['results']):
        lab = '%s:%s' % (job['base'], ''.join('R' if s['a'] == 'req' else 'A' for s in job['beh']))
        for k, st in enumerate(out):
            if st['a'] == 'req' and not st['right']:
                ctx.violation('stale-assembler-after-add base=%s history=%s' % (job['base'], lab.split(':')[1][:k + 1]),
                              {'steps': out})
                break
        ctx.case(('object', lab), nontrivial=any(s['a'] == 'add' for s in job['beh']),
                 sample={'object history': lab, 'outcomes': out} if lab.endswith('RAR') and job['base'] == 'mass' else None)

    # 3b. the TLC-generated forms of the C06/C01 generator (large universe): all same-key request pairs
    gcfg = write_cfg(ctx.scratch / 'gen13.cfg', dict(Dim=2, MaxTok=9, MaxStack=3, Rich=True, Poly=False, NcU=1, NcV=1, Bnd=False), invariants=['TypeOK'])
    gres = ctx.tlc('VFormGen', gcfg, workers=4, simulate=40000 if not ctx.thorough else 200000, depth=14, seed=ctx.seed + 5)
    gcfg2 = write_cfg(ctx.scratch / 'gen13b.cfg', dict(Dim=2, MaxTok=4, MaxStack=3, Rich=False, Poly=False, NcU=1, NcV=1, Bnd=False), invariants=['TypeOK'])
    gres2 = ctx.tlc('VFormGen', gcfg2, workers=4)
    toks = {}
    for f in gres2.recs('FORM') + gres.recs('FORM'):
        toks[tuple(f['tokens'])] = f
    G = [dict(name='gen:' + ' '.join(t), kind='gen', tokens=list(t), dim=f['dim'], attr='generated') for t, f in toks.items()]
    rng2 = random.Random(ctx.seed + 9)
    rng2.shuffle(G)
    G = G[:(6000 if ctx.thorough else 900)]
    U2 = U + G
    tab2 = child(ctx, 'tables', {'universe': U2, 'skip_names': True}, seed=0, tag='g')
    ok_idx = [i for i in range(len(U2)) if tab2['keys'][i] is not None]
    keys2, _ = classes([tab2['keys'][i] for i in ok_idx])
    flat2 = [s for i in ok_idx for s in tab2['srcs'][i] if s is not None]
    _, sid2 = classes(flat2)
    srcs2 = [[sid2.get(s, 0) if s is not None else 0 for s in tab2['srcs'][i]] for i in ok_idx]
    data2 = {'nf': len(ok_idx), 'key': keys2, 'src': srcs2, 'preseed': []}
    df2 = ctx.scratch / 'cache_data2.json'
    df2.write_text(json.dumps(data2))
    cfg2 = write_cfg(ctx.scratch / 'data2.cfg', dict(MaxLen=2, EmitBeh=True, SameKeyOnly=True), invariants=['Functional'],
                     view='View', action_constraints=['EmitAction'])
    res2 = ctx.tlc('VFormCacheData', cfg2, workers=1, env={'CACHE_DATA': str(df2)}, must_pass=False, timeout=3000)
    if not res2.ok and res2.violated != 'Functional':
        raise MachineryError('VFormCacheData (generated universe) did not complete: %s\n%s' % (res2.error, res2.stdout[-2000:]))
    names2 = [U2[i]['name'] for i in ok_idx]
    seen2 = set()
    for h in res2.recs('UNSOUND'):
        a, b = names2[h[0]['f'] - 1], names2[h[-1]['f'] - 1]
        pair = tuple(sorted([a, b])) + (h[-1]['m'],)
        if pair in seen2:
            continue
        seen2.add(pair)
        ctx.violation('cache-collision forms=%s|%s on_demand=%d' % pair, {'generated': True})
    for i in ok_idx[len(U):]:
        ctx.case(('gentable', U2[i]['name']), nontrivial=True)
    ctx.notes['generated_forms_in_key_check'] = len(ok_idx) - len(U)

    # 4. source <-> module name, across hash seeds
    if tab['have_names']:
        name_of = dict((s, n) for s, n in tab['names'])
        inv = {}
        for s, n in name_of.items():
            if inv.setdefault(n, s) != s:
                ctx.violation('module-name-collision %s' % n, {})
        seeds = (1, 2, 3, 12345) if ctx.thorough else (1, 12345)
        for sd in seeds:
            t2 = child(ctx, 'tables', {'universe': U}, seed=sd, tag='s%d' % sd)
            n2 = dict((s, n) for s, n in t2['names'])
            for s, n in n2.items():
                if s in name_of and name_of[s] != n:
                    ctx.violation('module-name-unstable seed=%d' % sd, {'names': [name_of[s], n]})
            for name, verdict in t2['fresh'].items():
                if verdict == 'different':
                    ctx.violation('shipped-stale %s seed=%d' % (name, sd), {})
            # key classes must separate exactly the same pairs under every hash seed
            k2, _ = classes(t2['keys'])
            s2 = [[x for x in pair] for pair in t2['srcs']]
            for i in range(len(U)):
                for j in range(i + 1, len(U)):
                    if k2[i] == k2[j] and s2[i] != s2[j]:
                        pair = tuple(sorted([names[i], names[j]]))
                        for m in (0, 1):
                            if s2[i][m] != s2[j][m]:
                                ctx.violation('cache-collision forms=%s|%s on_demand=%d' % (pair[0], pair[1], m),
                                              {'seed': sd})
            ctx.case(('seed', sd))
    else:
        ctx.skip('module names not observable (private builder renamed)')
    ctx.exhaustive = True
