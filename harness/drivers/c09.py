"""C09 -- tensor-product fast paths and closed-form Galerkin identities.

spec/Galerkin1D.tla: exact integrals of products of B-spline pieces (Taylor coefficients from spec/BSplineRef.tla,
monomial integration), Kronecker assembly for 2-D/3-D, affine geometries.  spec/GalerkinEval.tla enumerates the cases,
checks the closed-form identities in TLC (symmetry, sum M = |Omega|, K 1 = 0, rank K = n-1, integration by parts, grid
independence, consistency with prolongation) and emits the expected matrices / vectors as rationals.  This driver pushes
the same inputs through every shipped assembling route of pyiga.assemble (no form compilation) and compares entrywise."""
import itertools
from concurrent.futures import ThreadPoolExecutor

import numpy as np

from ..common import MachineryError, write_cfg
from .c02 import Agg, bad, fr

TOL = 1e-10
FAST_TOL = 1e-10


def mat(M):
    return np.array([[fr(x) for x in row] for row in M], dtype=float)


def vec(v):
    return np.array([fr(x) for x in v], dtype=float)


def polyfun(c):
    """numpy-callable for the polynomial with rational coefficients c (c[r] belongs to x^r)"""
    cf = [fr(x) for x in c]

    def f(x):
        x = np.asarray(x, dtype=float)
        out = np.zeros_like(x) + cf[-1]
        for a in reversed(cf[:-1]):
            out = out * x + a
        return out
    return f


def dense(X):
    return X.toarray() if hasattr(X, 'toarray') else np.asarray(X)


class Cmp:
    def __init__(self, agg, info):
        self.agg = agg
        self.info = info

    def guarded(self, route, f):
        try:
            return f()
        except Exception as ex:
            self.agg.add('%s: exception %s' % (route, type(ex).__name__), error=repr(ex), **self.info)
            return None

    def cmp(self, route, f, E, tol=TOL, what='value mismatch', **extra):
        X = self.guarded(route, f)
        if X is None:
            return
        X = dense(X)
        E = np.asarray(E, dtype=float)
        X = np.asarray(X, dtype=float)
        if X.shape != E.shape:
            self.agg.add('%s: wrong shape' % route, got=list(X.shape), expected=list(E.shape), **self.info, **extra)
            return
        b = bad(X, E, scale=np.abs(E).max() if E.size else 1.0, tol=tol)
        if b.any():
            ix = tuple(int(t[0]) for t in np.nonzero(b))
            self.agg.add('%s: %s' % (route, what), index=ix, got=float(X[ix]), expected=float(E[ix]),
                         nbad=int(b.sum()), **self.info, **extra)


def check_sym(ctx, agg, rec):
    from pyiga import assemble, bspline
    p = rec['p']
    kvl = rec['kv']
    kv = bspline.KnotVector(np.array(kvl, dtype=float), p)
    n = kv.numdofs
    c = Cmp(agg, dict(kv=kvl, p=p))
    for fm in rec['forms']:
        du, dv = fm['du'], fm['dv']
        E = mat(fm['M'])
        tag = dict(du=du, dv=dv)
        c.cmp('bsp_mixed_deriv_biform_1d', lambda: assemble.bsp_mixed_deriv_biform_1d(kv, du, dv), E, **tag)
        c.cmp('bsp_mixed_deriv_biform_1d(nqp=p+1)', lambda: assemble.bsp_mixed_deriv_biform_1d(kv, du, dv, nqp=p + 1), E, **tag)
        c.cmp('bsp_mixed_deriv_biform_1d_asym(same space)', lambda: assemble.bsp_mixed_deriv_biform_1d_asym(kv, kv, du, dv), E, **tag)
        if (du, dv) == (0, 0):
            c.cmp('bsp_mass_1d', lambda: assemble.bsp_mass_1d(kv), E)
            c.cmp('mass(1-D)', lambda: assemble.mass(kv), E)
            c.cmp('mass(1-D)', lambda: assemble.mass((kv,)), E)
            c.cmp('mass_fast(1-D, geo=None)', lambda: assemble.mass_fast(kv), E)
            c.cmp('bsp_mass_1d_asym(same space)', lambda: assemble.bsp_mass_1d_asym(kv, kv), E)
            X = c.guarded('bsp_mass_1d', lambda: assemble.bsp_mass_1d(kv).toarray())
            if X is not None and X.shape == (n, n):        # consequences stated by the property, on the real matrix
                if not np.allclose(X, X.T, rtol=0, atol=1e-13):
                    agg.add('bsp_mass_1d: not symmetric', kv=kvl, p=p)
                ev = np.linalg.eigvalsh((X + X.T) / 2)
                if ev.min() <= 0:
                    agg.add('bsp_mass_1d: not positive definite', kv=kvl, p=p, min_eig=float(ev.min()))
        if (du, dv) == (1, 1) and p >= 1:
            c.cmp('bsp_stiffness_1d', lambda: assemble.bsp_stiffness_1d(kv), E)
            c.cmp('stiffness(1-D)', lambda: assemble.stiffness(kv), E)
            c.cmp('stiffness_fast(1-D, geo=None)', lambda: assemble.stiffness_fast(kv), E)
            c.cmp('bsp_stiffness_1d_asym(same space)', lambda: assemble.bsp_stiffness_1d_asym(kv, kv), E)
            X = c.guarded('bsp_stiffness_1d', lambda: assemble.bsp_stiffness_1d(kv).toarray())
            if X is not None and X.shape == (n, n):
                sc = np.abs(X).max()
                if np.abs(X @ np.ones(n)).max() > 1e-11 * sc:
                    agg.add('bsp_stiffness_1d: K 1 != 0', kv=kvl, p=p)
                ev = np.linalg.eigvalsh((X + X.T) / 2)
                if ev[0] < -1e-11 * sc or (n > 1 and ev[1] <= 1e-11 * sc):
                    agg.add('bsp_stiffness_1d: kernel is not exactly the constants', kv=kvl, p=p, eig=ev[:2].tolist())
    # polynomial weights: degree 1 with the default rule, degree 2 needs one more node
    for wm in rec['wmass']:
        w = polyfun(wm['w'])
        degw = len(wm['w']) - 1
        E = mat(wm['M'])
        if degw <= 1:
            c.cmp('bsp_mass_1d(weightfunc)', lambda: assemble.bsp_mass_1d(kv, weightfunc=w), E, degw=degw)
        c.cmp('bsp_mixed_deriv_biform_1d(weightfunc, nqp)', lambda: assemble.bsp_mixed_deriv_biform_1d(kv, 0, 0, nqp=p + 2, weightfunc=w), E, degw=degw)
    for wm in rec['wstiff']:
        w = polyfun(wm['w'])
        degw = len(wm['w']) - 1
        E = mat(wm['M'])
        if degw <= 1:
            c.cmp('bsp_stiffness_1d(weightfunc)', lambda: assemble.bsp_stiffness_1d(kv, weightfunc=w), E, degw=degw)
        c.cmp('bsp_mixed_deriv_biform_1d(weightfunc, nqp)', lambda: assemble.bsp_mixed_deriv_biform_1d(kv, 1, 1, nqp=p + 1, weightfunc=w), E, degw=degw)
    for ld in rec['loads']:
        f = polyfun(ld['f'])
        degf = len(ld['f']) - 1
        if degf > p + 1:
            continue                        # the (p+1)-point rule is exact for deg f <= p+1 only
        E = vec(ld['L'])
        c.cmp('bspline.load_vector', lambda: bspline.load_vector(kv, f), E, degf=degf)
        c.cmp('inner_products(1-D)', lambda: assemble.inner_products(kv, f), E, degf=degf)
        c.cmp('inner_products(1-D)', lambda: assemble.inner_products((kv,), f), E, degf=degf)
        c.cmp('integrate(1-D)', lambda: np.array([assemble.integrate(kv, f)]), np.array([fr(ld['I'])]), degf=degf)
    ctx.case(('sym', p, tuple(kvl)), nontrivial=len(set(kvl)) > 2,
             sample={'kv': kvl, 'p': p, 'mass': rec['forms'][0]['M'][:2]} if (p == 2 and len(kvl) == 7) else None)


def check_asym(ctx, agg, rec):
    from pyiga import assemble, bspline
    kv1 = bspline.KnotVector(np.array(rec['kv1'], dtype=float), rec['p1'])
    kv2 = bspline.KnotVector(np.array(rec['kv2'], dtype=float), rec['p2'])
    grid = np.array([fr(x) for x in rec['grid']])
    c = Cmp(agg, dict(pair=rec['name'], kv1=rec['kv1'], p1=rec['p1'], kv2=rec['kv2'], p2=rec['p2']))
    for fm in rec['forms']:
        du, dv = fm['du'], fm['dv']
        E = mat(fm['M'])
        tag = dict(du=du, dv=dv)
        route = 'bsp_mixed_deriv_biform_1d_asym(%s)' % rec['name']
        c.cmp(route, lambda: assemble.bsp_mixed_deriv_biform_1d_asym(kv1, kv2, du, dv, quadgrid=grid), E, **tag)
        if rec['defaultgrid']:
            c.cmp(route, lambda: assemble.bsp_mixed_deriv_biform_1d_asym(kv1, kv2, du, dv), E, **tag)
        if (du, dv) == (0, 0):
            c.cmp('bsp_mass_1d_asym(%s)' % rec['name'], lambda: assemble.bsp_mass_1d_asym(kv1, kv2, quadgrid=grid), E)
        if (du, dv) == (1, 1):
            c.cmp('bsp_stiffness_1d_asym(%s)' % rec['name'], lambda: assemble.bsp_stiffness_1d_asym(kv1, kv2, quadgrid=grid), E)
    ctx.case(('asym', rec['name'], rec['p1'], tuple(rec['kv1']), rec['p2'], tuple(rec['kv2'])), nontrivial=True,
             sample={'pair': rec['name'], 'kv1': rec['kv1'], 'p1': rec['p1'], 'kv2': rec['kv2'], 'p2': rec['p2']}
             if rec['name'] == 'p+1' and rec['p1'] == 1 and len(rec['kv1']) == 5 else None)


def affine_geo(kvs, A, t):
    """degree-1 tensor-product spline x = A xi + t over the parameter box of kvs (A, xi, x in x-first order)"""
    from pyiga import bspline
    d = len(kvs)
    lin = tuple(bspline.KnotVector(np.array([kv.kv[0], kv.kv[0], kv.kv[-1], kv.kv[-1]], dtype=float), 1) for kv in kvs)
    coeffs = np.zeros(d * (2,) + (d,))
    for mi in itertools.product(range(2), repeat=d):
        xi = np.array([lin[d - 1 - cc].kv[0] if mi[d - 1 - cc] == 0 else lin[d - 1 - cc].kv[-1] for cc in range(d)])
        coeffs[mi] = A @ xi + t
    return bspline.BSplineFunc(lin, coeffs)


def check_tp(ctx, agg, rec):
    from pyiga import assemble, assemblers, bspline, geometry
    d = len(rec['kvs'])
    kvs = tuple(bspline.KnotVector(np.array(k, dtype=float), p) for k, p in zip(rec['kvs'], rec['ps']))
    A = mat(rec['A'])
    absdet = abs(np.linalg.det(A))
    t = np.array([1.0, -2.0, 0.5])[:d]
    ident = rec['geo'] == 1
    geo = affine_geo(kvs, A, t)
    N = rec['N']
    c = Cmp(agg, dict(case=rec['id'], geo=rec['geo'], kvs=rec['kvs'], ps=rec['ps'], A=A.tolist()))
    M, K = mat(rec['mass']), mat(rec['stiff'])
    tagd = '%d-D' % d
    MA = {2: assemblers.MassAssembler2D, 3: assemblers.MassAssembler3D}[d]
    KA = {2: assemblers.StiffnessAssembler2D, 3: assemblers.StiffnessAssembler3D}[d]
    if ident:
        c.cmp('mass(%s, geo=None)' % tagd, lambda: assemble.mass(kvs), M)
        c.cmp('stiffness(%s, geo=None)' % tagd, lambda: assemble.stiffness(kvs), K)
        c.cmp('mass_fast(%s, geo=None)' % tagd, lambda: assemble.mass_fast(kvs), M)
        c.cmp('stiffness_fast(%s, geo=None)' % tagd, lambda: assemble.stiffness_fast(kvs), K)
        c.cmp('mass(%s, geo=None)' % tagd, lambda: assemble.mass(kvs, format='csc'), M)
        # the same space on a tiny parameter domain (all knots scaled by 2^-34, exact in binary floating point): the
        # scaling laws M(s kvs) = s^d M(kvs), K(s kvs) = s^(d-2) K(kvs) hold exactly -- there every two knot vectors of
        # equal degree and length compare equal under the tolerant KnotVector.__eq__ although their breakpoints differ
        sc = 2.0 ** -34
        kvs_s = tuple(bspline.KnotVector(np.asarray(kv.kv, dtype=float) * sc, kv.p) for kv in kvs)
        c.cmp('mass(%s, geo=None, tiny domain)' % tagd, lambda: dense(assemble.mass(kvs_s)) / sc ** d, M)
        c.cmp('stiffness(%s, geo=None, tiny domain)' % tagd, lambda: dense(assemble.stiffness(kvs_s)) / sc ** (d - 2), K)
        geo0 = geometry.identity(kvs)
        c.cmp('mass(%s, identity geometry)' % tagd, lambda: assemble.mass(kvs, geo0), M)
        c.cmp('stiffness(%s, identity geometry)' % tagd, lambda: assemble.stiffness(kvs, geo0), K)
    gname = 'identity geometry' if ident else 'affine geometry'
    c.cmp('mass(%s, %s)' % (tagd, gname), lambda: assemble.mass(kvs, geo), M)
    c.cmp('stiffness(%s, %s)' % (tagd, gname), lambda: assemble.stiffness(kvs, geo), K)
    c.cmp('assemble(MassAssembler, %s, %s)' % (tagd, gname), lambda: assemble.assemble(MA, kvs, geo=geo), M)
    c.cmp('assemble(StiffnessAssembler, %s, %s)' % (tagd, gname), lambda: assemble.assemble(KA, kvs, geo=geo, symmetric=True), K)
    c.cmp('Assembler(StiffnessAssembler, %s, %s)' % (tagd, gname), lambda: assemble.Assembler(KA, kvs, geo=geo).assemble(), K)
    # the low-rank assembler picks rows with rand(): repeat it on the small multilinear spaces where a premature stop shows
    for rep in range(8 if max(rec['ps']) == 1 else 1):
        cls = ', multilinear space' if max(rec['ps']) == 1 else ''
        c.cmp('mass_fast(%s, %s%s)' % (tagd, gname, cls), lambda: assemble.mass_fast(kvs, geo, tol=FAST_TOL, verbose=0), M, tol=3 * FAST_TOL)
        c.cmp('stiffness_fast(%s, %s%s)' % (tagd, gname, cls), lambda: assemble.stiffness_fast(kvs, geo, tol=FAST_TOL, verbose=0), K, tol=3 * FAST_TOL)
    # numeric predicate (no exact oracle: the integrand is rational): on a bilinear quadrilateral stretched by 2^13 in x
    # the stiffness matrix is not of exact low rank and has entries of size 1e4, and the low-rank assembler must still
    # agree ENTRYWISE with the standard one to the requested ABSOLUTE tolerance (factor 20 for the accumulation over
    # the crosses).  Multilinear spaces are left out (known finding: premature stop of the random pivot search).
    if d == 2 and rec['geo'] == 1 and max(rec['ps']) >= 2:
        def stretched():
            from pyiga import bspline as _b
            cpts = np.array([[[0.0, 0.0], [8192.0, 0.0]], [[512.0, 1.0], [9216.0, 1.5]]])   # axis 0 = y, axis 1 = x
            # reparametrise the unit square onto the parameter domain of the space
            lo = [kv.kv[0] for kv in kvs]
            hi = [kv.kv[-1] for kv in kvs]
            k0 = _b.KnotVector(np.array([lo[0], lo[0], hi[0], hi[0]], dtype=float), 1)
            k1 = _b.KnotVector(np.array([lo[1], lo[1], hi[1], hi[1]], dtype=float), 1)
            return _b.BSplineFunc((k0, k1), cpts)
        try:
            gq = stretched()
            # three uniform refinements of the spec's space: only then the matrix has a numerical rank beyond the few
            # crosses after which the approximation of the small spaces is exact whatever the stopping rule
            kvr = kvs
            for _ in range(3):
                kvr = tuple(kv.refine() for kv in kvr)
            Kref = assemble.stiffness(kvr, gq).toarray()
            worst = None
            for attempt in range(2):
                Kf = assemble.stiffness_fast(kvr, gq, tol=FAST_TOL, verbose=0).toarray()
                err = float(np.abs(Kf - Kref).max())
                worst = err if worst is None else min(worst, err)
            if worst > 20 * FAST_TOL * max(1.0, 1e-16 / FAST_TOL * np.abs(Kref).max() * 50):
                agg.add('stiffness_fast(2-D, stretched bilinear geometry): entrywise error exceeds the requested absolute tolerance',
                        **c.info, error=worst, tol=FAST_TOL, max_entry=float(np.abs(Kref).max()))
        except Exception as ex:
            agg.add('stiffness_fast(2-D, stretched bilinear geometry): exception %s' % type(ex).__name__, **c.info, error=repr(ex))
    # consequences on the real matrices
    X = c.guarded('mass', lambda: assemble.mass(kvs, geo).toarray())
    if X is not None and X.shape == (N, N):
        vol = absdet * np.prod([kv.kv[-1] - kv.kv[0] for kv in kvs])
        if abs(X.sum() - vol) > 1e-10 * vol:
            agg.add('mass(%s, %s): sum M != |Omega|' % (tagd, gname), **c.info, got=float(X.sum()), expected=float(vol))
        if np.linalg.eigvalsh((X + X.T) / 2).min() <= 0:
            agg.add('mass(%s, %s): not positive definite' % (tagd, gname), **c.info)
    X = c.guarded('stiffness', lambda: assemble.stiffness(kvs, geo).toarray())
    if X is not None and X.shape == (N, N) and all(p >= 1 for p in rec['ps']):
        sc = np.abs(X).max()
        ev = np.linalg.eigvalsh((X + X.T) / 2)
        if np.abs(X @ np.ones(N)).max() > 1e-10 * sc or ev[0] < -1e-10 * sc or ev[1] <= 1e-10 * sc:
            agg.add('stiffness(%s, %s): kernel is not exactly the constants' % (tagd, gname), **c.info, eig=ev[:2].tolist())
    # div-div (vector-valued, blocked and packed layout)
    if rec['divdiv']:
        blocks = [[mat(rec['divdiv'][cv][cu]) for cu in range(d)] for cv in range(d)]
        DD = np.block(blocks)
        c.cmp('divdiv(%s, %s)' % (tagd, gname), lambda: assemble.divdiv(kvs, geo), DD)
        perm = np.array([cc * N + i for i in range(N) for cc in range(d)])
        c.cmp('divdiv(%s, %s, packed)' % (tagd, gname), lambda: assemble.divdiv(kvs, geo, layout='packed'), DD[np.ix_(perm, perm)])
        if ident and all(kv.kv[0] == 0.0 and kv.kv[-1] == 1.0 for kv in kvs):
            c.cmp('divdiv(%s, geo=None)' % tagd, lambda: assemble.divdiv(kvs), DD)
    # load vectors and integrals of polynomial data  f(xi) = sum_t prod_a datas[t][a](xi_a)
    terms = [[polyfun(pa) for pa in term] for term in rec['datas']]
    # quadrature of these routines: max(p)+1 nodes per direction, exact for deg f_a + p_a <= 2 max(p) + 1
    ok = all(len(pa) - 1 + rec['ps'][a] <= 2 * max(rec['ps']) + 1 for term in rec['datas'] for a, pa in enumerate(term))
    if ok:
        Ainv = np.linalg.inv(A)

        def fpar(*X):           # X in xyz order; axis a <-> X[d-1-a]
            return sum(np.prod(np.broadcast_arrays(*[term[a](X[d - 1 - a]) for a in range(d)]), axis=0) for term in terms)

        def fphys(*X):
            Xb = np.broadcast_arrays(*X)
            P = np.stack(Xb, axis=-1) - t
            XI = np.einsum('ij,...j->...i', Ainv, P)
            return fpar(*[XI[..., cc] for cc in range(d)])
        L = vec(rec['load']).reshape(tuple(kv.numdofs for kv in kvs))
        I = fr(rec['integral'])
        c.cmp('inner_products(%s)' % tagd, lambda: assemble.inner_products(kvs, fpar), L)
        c.cmp('inner_products(%s, %s)' % (tagd, gname), lambda: assemble.inner_products(kvs, fpar, geo=geo), absdet * L)
        c.cmp('inner_products(%s, %s, f_physical)' % (tagd, gname),
              lambda: assemble.inner_products(kvs, fphys, f_physical=True, geo=geo), absdet * L)
        c.cmp('integrate(%s)' % tagd, lambda: np.array([assemble.integrate(kvs, fpar)]), np.array([I]))
        c.cmp('integrate(%s, %s)' % (tagd, gname), lambda: np.array([assemble.integrate(kvs, fpar, geo=geo)]), np.array([absdet * I]))
        c.cmp('integrate(%s, %s, f_physical)' % (tagd, gname),
              lambda: np.array([assemble.integrate(kvs, fphys, f_physical=True, geo=geo)]), np.array([absdet * I]))
        FA = {2: assemblers.L2FunctionalAssembler2D, 3: assemblers.L2FunctionalAssembler3D}[d]
        FP = {2: assemblers.L2FunctionalAssemblerPhys2D, 3: assemblers.L2FunctionalAssemblerPhys3D}[d]
        c.cmp('assemble(L2FunctionalAssembler, %s, %s)' % (tagd, gname), lambda: assemble.assemble(FA, kvs, geo=geo, f=fpar), absdet * L)
        c.cmp('assemble(L2FunctionalAssemblerPhys, %s, %s)' % (tagd, gname), lambda: assemble.assemble(FP, kvs, geo=geo, f=fphys), absdet * L)
    ctx.case(('tp', rec['id'], rec['geo']), nontrivial=True,
             sample={'tp_case': rec['id'], 'kvs': rec['kvs'], 'ps': rec['ps'], 'A': rec['A'], 'sum_mass': float(M.sum())}
             if (rec['id'], rec['geo']) == (1, 3) else None)


INVS = ['SymOK', 'AsymOK', 'TpOK']


def run(ctx):
    ctx.rule = ('TLC enumerates open knot vectors (degree 0..3, thorough 0..4; all interior multiplicity patterns), pairs of '
                'trial/test spaces on a common mesh derived from them, and tensor-product spaces x affine geometries; one case = '
                'one space / pair / (space, geometry) with all its exact matrices and vectors compared entrywise with every shipped '
                'assembling route (non-trivial = at least two spans, or any pair / tensor-product case)')
    ctx.assumptions = ['expected entries are exact rationals (spec/Galerkin1D.tla: Taylor pieces of spec/BSplineRef.tla integrated '
                       'monomial by monomial); |x-q| <= 1e-10 max(1,|q|,max|entry|); mass_fast/stiffness_fast within 3*tol, tol = 1e-10',
                       'geometries are affine (|det J| constant); weights and right-hand sides are polynomials of a degree for which '
                       'the rule chosen by the routine (or the nqp passed explicitly) is exact',
                       'no variational form is compiled: only the shipped assembler classes (string forms are exercised by C01)']
    agg = Agg(ctx)
    if not ctx.thorough:
        runs = [('sym', dict(Tier='quick', Degrees={0, 1, 2, 3}, Phases={'sym', 'asym'}, TpIds={1}), 4),
                ('tp', dict(Tier='quick', Degrees={0}, Phases={'tp'}, TpIds={1, 3, 4, 5, 6, 8, 10}), 4)]
    else:
        runs = [('sym01', dict(Tier='thorough', Degrees={0, 1, 2}, Phases={'sym', 'asym'}, TpIds={1}), 4),
                ('sym3', dict(Tier='thorough', Degrees={3}, Phases={'sym', 'asym'}, TpIds={1}), 4),
                ('sym4', dict(Tier='thorough', Degrees={4}, Phases={'sym', 'asym'}, TpIds={1}), 4),
                ('tp', dict(Tier='thorough', Degrees={0}, Phases={'tp'}, TpIds={1, 2, 3, 4, 5, 6, 7, 8, 9, 10}), 4)]

    def one(item):
        name, consts, workers = item
        cfg = write_cfg(ctx.scratch / ('gal_%s.cfg' % name), consts, invariants=INVS)
        return name, ctx.tlc('GalerkinEval', cfg, workers=workers, timeout=7200)

    with ThreadPoolExecutor(4) as ex:
        results = list(ex.map(one, runs))
    nrec = 0
    for name, res in results:
        for rec in res.recs('SYM'):
            check_sym(ctx, agg, rec)
            nrec += 1
        for rec in res.recs('ASYM'):
            check_asym(ctx, agg, rec)
            nrec += 1
        for rec in res.recs('TP'):
            check_tp(ctx, agg, rec)
            nrec += 1
    if nrec == 0:
        raise MachineryError('GalerkinEval emitted nothing')
    agg.flush()
    ctx.exhaustive = True
