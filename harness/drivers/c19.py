"""C19 -- knot vectors: spec/KnotVec.tla (declarative definitions + PlusCal transcription of pyx_findspan)
explored by TLC; every emitted case is replayed on the real pyiga.bspline.make_knots / KnotVector /
pyx_findspan(s) / spline.Spline.derivative (M1)."""
import zlib
from concurrent.futures import ProcessPoolExecutor, ThreadPoolExecutor
from fractions import Fraction

import numpy as np

from ..common import MachineryError, frac, write_cfg

INVS = ['LoopInv', 'AsProved', 'FindSpanOK', 'QueriesOK', 'RefineOK', 'EqOK', 'DerivOK', 'MKSmallOK', 'SweepOK', 'EmitOut']
KNOWN_N = [49, 98, 103, 107, 196, 197, 206]
NIV = 12
TOL = 1e-12


def _h(*xs):
    return zlib.crc32(repr(xs).encode())


class Tally:
    def __init__(self):
        self.d = {}

    def add(self, sig, detail, key=None, group=None):
        e = self.d.setdefault(sig, {'count': 0, 'first': detail, 'more': [], 'keys': [], 'groups': {}})
        e['count'] += 1
        if 0 < e['count'] - 1 <= 3:
            e['more'].append(detail)
        if key is not None and len(e['keys']) < 400:
            e['keys'].append(key)
        if group is not None:
            g = e['groups'].setdefault(group, {'count': 0, 'n': []})
            g['count'] += 1
            if key is not None and key[1] not in g['n'] and len(g['n']) < 60:
                g['n'].append(key[1])

    def merge(self, other):
        for sig, o in other.d.items():
            e = self.d.get(sig)
            if e is None:
                self.d[sig] = o
            else:
                e['count'] += o['count']
                e['more'] = (e['more'] + [o['first']] + o['more'])[:3]
                e['keys'] = (e['keys'] + o['keys'])[:400]
                for gname, og in o['groups'].items():
                    g = e['groups'].setdefault(gname, {'count': 0, 'n': []})
                    g['count'] += og['count']
                    g['n'] = sorted(set(g['n']) | set(og['n']))[:60]

    def flush(self, ctx):
        for sig in sorted(self.d):
            e = self.d[sig]
            print('[c19] %6d failing case(s): %s' % (e['count'], sig), flush=True)
            for gname in sorted(e['groups']):
                print('[c19]            interval %s: %d case(s), n in %s' % (gname, e['groups'][gname]['count'],
                                                                              sorted(e['groups'][gname]['n'])), flush=True)
            ctx.violation(sig, {'failing_cases': e['count'], 'first': e['first'], 'more': e['more'],
                                'failing (p, n, mult) (first 400)': e['keys'], 'by_interval': e['groups']})


# ======================================================================================
# small families

def real_kv(t, sc, p, shift=0.0, scale=1.0):
    from pyiga import bspline
    return bspline.KnotVector(shift + scale * (np.array(t, dtype=float) / sc), p)


NONDYADIC = [(0.1, 0.2), (1.0 / 3, 2.0 / 3), (0.3, 1.3), (0.9, 1.0), (-0.7, 0.3), (2.5, 7.1)]
AFFINE = [(0.0, 1.0), (-1.5, 0.5), (3.0, 2.0)]     # dyadic: exact in binary floating point
DERIV_AFFINE = [(0.0, 1.0), (16384.0, 0.015625), (-1048576.0, 0.125)]


def replay_findspan(ctx, tally, r):
    from pyiga import bspline
    case = {k: r[k] for k in ('p', 't', 'sc', 'u')}
    ctx.case(('findspan', r['p'], tuple(r['t']), r['u']), nontrivial=len(set(r['t'])) > 2,
             sample=dict(case, span=r['span']) if _h(r['t'], r['u']) % 97 == 0 else None)
    for shift, scale in AFFINE:
        try:
            kv = real_kv(r['t'], r['sc'], r['p'], shift, scale)
            u = shift + scale * (r['u'] / r['sc'])
            got = int(kv.findspan(u))
            got2 = int(bspline.pyx_findspans(kv.kv, kv.p, np.array([u, u]))[1])
            got3 = int(kv.first_active_at(u))
        except Exception as ex:
            tally.add('exception %s findspan' % type(ex).__name__, {'case': case, 'error': repr(ex)})
            return
        if got != r['span'] or got2 != r['span']:
            tally.add('findspan wrong-span', {'case': case, 'affine': [shift, scale], 'observed': [got, got2],
                                              'expected': r['span']})
        if got3 != r['span'] - r['p']:
            tally.add('first_active_at', {'case': case, 'observed': got3, 'expected': r['span'] - r['p']})


def replay_queries(ctx, tally, r):
    from pyiga import bspline
    sc, p = r['sc'], r['p']
    case = {k: r[k] for k in ('p', 't', 'sc')}
    ctx.case(('queries', p, tuple(r['t'])), nontrivial=r['numspans'] >= 2,
             sample=case if _h(r['t'], p) % 17 == 0 else None)

    def bad(what, got, want):
        tally.add('KnotVector.%s' % what, {'case': case, 'observed': np.asarray(got).tolist(), 'expected': want})
    try:
        kv = real_kv(r['t'], sc, p)
        nd = r['numdofs']
        if int(kv.numknots) != r['numknots']:
            bad('numknots', kv.numknots, r['numknots'])
        if int(kv.numdofs) != nd or int(bspline.numdofs(kv)) != nd or int(bspline.numdofs((kv, kv))) != nd * nd:
            bad('numdofs', kv.numdofs, nd)
        if int(kv.numspans) != r['numspans']:
            bad('numspans', kv.numspans, r['numspans'])
        mesh = [m / sc for m in r['mesh']]
        if np.asarray(kv.mesh).tolist() != mesh:
            bad('mesh', kv.mesh, mesh)
        if [float(x) for x in kv.support()] != [x / sc for x in r['support']]:
            bad('support()', kv.support(), r['support'])
        for j in range(nd):
            if [float(x) for x in kv.support(j)] != [x / sc for x in r['supports'][j]]:
                bad('support(j)', kv.support(j), r['supports'][j])
            if [int(x) for x in kv.support_idx(j)] != r['support_idx'][j]:
                bad('support_idx', kv.support_idx(j), r['support_idx'][j])
            if [int(x) for x in kv.mesh_support_idx(j)] != r['mesh_support_idx'][j]:
                bad('mesh_support_idx', kv.mesh_support_idx(j), r['mesh_support_idx'][j])
        if np.asarray(kv.mesh_support_idx_all()).tolist() != r['mesh_support_idx']:
            bad('mesh_support_idx_all', kv.mesh_support_idx_all(), r['mesh_support_idx'])
        if np.asarray(kv.mesh_span_indices()).tolist() != r['mesh_span_indices']:
            bad('mesh_span_indices', kv.mesh_span_indices(), r['mesh_span_indices'])
        fa = [int(kv.first_active(i)) for i in r['mesh_span_indices']]
        if fa != r['first_active']:
            bad('first_active', fa, r['first_active'])
        g = np.asarray(kv.greville(), dtype=float)
        gq = [float(frac(q)) for q in r['greville']]
        if g.shape != (nd,) or np.abs(g - gq).max(initial=0.0) > TOL * max(1.0, abs(r['t'][-1] / sc)) or \
                g.min() < kv.kv[0] or g.max() > kv.kv[-1]:
            bad('greville', g, gq)
        # the same knot vector on domains whose end points are NOT binary fractions: the running averages round,
        # and the abscissae must still lie inside [a, b] (and stay within rounding of the exact averages)
        t0, t1 = r['t'][0], r['t'][-1]
        if t1 > t0:
            for a, b in NONDYADIC:
                tt = np.array([a + (b - a) * ((x - t0) / (t1 - t0)) for x in r['t']], dtype=float)
                tt[tt >= b] = b         # the clamped end knots are exactly b
                tt = np.maximum.accumulate(tt)
                kva = bspline.KnotVector(tt, p)
                ga = np.asarray(kva.greville(), dtype=float)
                want = [a + (b - a) * ((q * sc - t0) / (t1 - t0)) for q in gq]
                if ga.shape != (nd,) or ga.min() < kva.kv[0] or ga.max() > kva.kv[-1] or \
                        np.abs(ga - want).max(initial=0.0) > 1e-12 * max(1.0, abs(a), abs(b)):
                    tally.add('KnotVector.greville outside-domain-or-inexact non-dyadic-domain',
                              {'case': case, 'domain': [a, b], 'observed': ga.tolist(), 'expected': want,
                               'over': float(ga.max() - kva.kv[-1]), 'under': float(kva.kv[0] - ga.min())})
                    break
        if abs(kv.meshsize_avg() - float(frac(r['meshsize_avg']))) > TOL:
            bad('meshsize_avg', kv.meshsize_avg(), r['meshsize_avg'])
        # copies are equal, equality is reflexive
        if not (kv == kv) or not (kv == kv.copy()) or not (kv.copy() == kv):
            bad('__eq__ reflexive', False, True)
    except Exception as ex:
        tally.add('exception %s KnotVector queries' % type(ex).__name__, {'case': case, 'error': repr(ex)})


def kv_consistent(kv):
    """queries of a KnotVector object against their declarative meaning recomputed from kv.kv alone (C19: mesh, support,
    span-index and mesh-support queries are mutually consistent); returns the name of the first inconsistent query"""
    t = np.asarray(kv.kv, dtype=float)
    p = int(kv.p)
    mesh = np.unique(t)
    if np.asarray(kv.mesh).tolist() != mesh.tolist():
        return 'mesh'
    if int(kv.numspans) != len(mesh) - 1:
        return 'numspans'
    spans = [i for i in range(len(t) - 1) if t[i] < t[i + 1]]
    if np.asarray(kv.mesh_span_indices()).tolist() != spans or len(spans) != int(kv.numspans):
        return 'mesh_span_indices'
    nd = len(t) - p - 1
    if int(kv.numdofs) != nd:
        return 'numdofs'
    k2m = np.searchsorted(mesh, t)
    msi = [[int(k2m[j]), int(k2m[j + p + 1])] for j in range(nd)]
    if np.asarray(kv.mesh_support_idx_all()).tolist() != msi:
        return 'mesh_support_idx_all'
    for j in range(nd):
        if [int(x) for x in kv.mesh_support_idx(j)] != msi[j]:
            return 'mesh_support_idx'
        if [float(x) for x in kv.support(j)] != [t[j], t[j + p + 1]]:
            return 'support(j)'
    for i in spans:
        if p <= i < len(t) - 1 - p:
            mid = (t[i] + t[i + 1]) / 2
            if int(kv.findspan(mid)) != i or int(kv.findspan(t[i])) != i:
                return 'findspan'
    return None


def replay_refine(ctx, tally, r):
    sc, p = r['sc'], r['p']
    case = {k: r[k] for k in ('p', 't', 'sc', 'uniform', 'new')}
    ctx.case(('refine', p, tuple(r['t']), r['uniform'], tuple(r['new'])), nontrivial=len(r['new']) >= 1,
             sample=case if _h(r['t'], r['new']) % 499 == 0 else None)
    try:
        kv = real_kv(r['t'], sc, p)
        # an adaptive loop queries a knot vector before it refines it: every other case does so (caches filled)
        queried = _h(r['t'], r['new'], 'q') % 2 == 0
        if queried:
            kv.mesh, kv.numspans, kv.mesh_span_indices(), kv.mesh_support_idx_all()
        if r['uniform']:
            kv2 = kv.refine()
        else:
            new = [x / sc for x in r['new']]
            # unsorted input must not matter: pass the new knots in descending order every other time
            if _h(r['t'], r['new']) % 2:
                new = new[::-1]
            kv2 = kv.refine(np.array(new, dtype=float) if _h(r['new']) % 3 else new)
        want = [x / sc for x in r['result']]
        if int(kv2.p) != p or np.asarray(kv2.kv).tolist() != want:
            tally.add('KnotVector.refine %s' % ('uniform' if r['uniform'] else 'new-knots'),
                      {'case': case, 'observed': np.asarray(kv2.kv).tolist(), 'expected': want})
        if np.asarray(kv.kv).tolist() != [x / sc for x in r['t']]:
            tally.add('KnotVector.refine modifies-original', {'case': case})
        # the refined vector, its copy and the original answer every query consistently with their own knots
        for nm, obj in (('refined', kv2), ('copy-of-refined', kv2.copy()), ('original-after-refine', kv)):
            w = kv_consistent(obj)
            if w:
                tally.add('KnotVector.refine result-inconsistent query=%s object=%s parent-queried=%s' % (w, nm, queried),
                          {'case': case, 'knots': np.asarray(obj.kv).tolist()})
                break
    except Exception as ex:
        tally.add('exception %s KnotVector.refine' % type(ex).__name__, {'case': case, 'error': repr(ex)})


def replay_eq(ctx, tally, r):
    case = {k: r[k] for k in ('p1', 't1', 'p2', 't2', 'sc')}
    ctx.case(('eq', r['p1'], tuple(r['t1']), r['p2'], tuple(r['t2'])), nontrivial=r['p1'] == r['p2'],
             sample=dict(case, equal=r['equal']) if _h(r['t1'], r['t2']) % 1999 == 0 else None)
    try:
        k1 = real_kv(r['t1'], r['sc'], r['p1'])
        k2 = real_kv(r['t2'], r['sc'], r['p2'])
        e12, e21 = bool(k1 == k2), bool(k2 == k1)
    except Exception as ex:
        tally.add('exception %s KnotVector.__eq__' % type(ex).__name__, {'case': case, 'error': repr(ex)})
        return
    if e12 != e21:
        tally.add('KnotVector.__eq__ not-symmetric', {'case': case, 'k1==k2': e12, 'k2==k1': e21})
    if e12 != r['equal']:
        tally.add('KnotVector.__eq__ wrong', {'case': case, 'observed': e12, 'expected': r['equal']})


def replay_deriv(ctx, tally, r):
    from pyiga import spline
    sc, p = r['sc'], r['p']
    case = {k: r[k] for k in ('p', 't', 'sc', 'fam')}
    ctx.case(('deriv', p, tuple(r['t']), r['fam']), nontrivial=len(set(r['t'])) > 2,
             sample=case if _h(r['t'], r['fam']) % 23 == 0 else None)
    # the case as emitted, and dyadic affine images of its knot vector x -> shift + scale * x (exact in binary floating
    # point, far from the origin relative to the span width): the coefficients of the derivative scale by 1/scale,
    # the values at the mapped points likewise -- a formula that cancels (differences of numbers of size |shift|)
    # loses the digits here that it keeps on [0, 4]
    for shift, scale_x in DERIV_AFFINE:
        tag = '' if (shift, scale_x) == (0.0, 1.0) else ' far-from-origin'
        try:
            kv = real_kv(r['t'], sc, p, shift, scale_x)
            cs = np.array([float(frac(q)) for q in r['coeffs']])
            s = spline.Spline(kv, cs)
            d = s.derivative()
            want = np.array([float(frac(q)) for q in r['dcoeffs']]) / scale_x
            scale = max(1.0, float(np.abs(want).max(initial=0.0)))
            if int(d.kv.p) != r['dp'] or np.asarray(d.kv.kv).tolist() != [shift + scale_x * (x / sc) for x in r['dt']]:
                tally.add('Spline.derivative knot-vector' + tag,
                          {'case': case, 'affine': [shift, scale_x], 'observed': [int(d.kv.p), np.asarray(d.kv.kv).tolist()],
                           'expected': [r['dp'], r['dt']]})
                return
            if d.coeffs.shape != want.shape or np.abs(d.coeffs - want).max(initial=0.0) > 1e-11 * scale:
                tally.add('Spline.derivative coefficients' + tag,
                          {'case': case, 'affine': [shift, scale_x], 'observed': d.coeffs.tolist(), 'expected': want.tolist()})
            us = np.array([shift + scale_x * (smp['u'] / sc) for smp in r['samples']])
            if len(us):
                v = np.array([float(frac(smp['v'])) for smp in r['samples']])
                dv = np.array([float(frac(smp['dv'])) for smp in r['samples']]) / scale_x
                if np.abs(np.asarray(s.eval(us)) - v).max() > 1e-11 * max(1.0, np.abs(v).max()):
                    tally.add('Spline.eval values' + tag, {'case': case, 'affine': [shift, scale_x],
                                                           'observed': np.asarray(s.eval(us)).tolist(), 'expected': v.tolist()})
                if np.abs(np.asarray(d.eval(us)) - dv).max() > 1e-10 * scale:
                    tally.add('Spline.derivative pointwise-values' + tag,
                              {'case': case, 'affine': [shift, scale_x], 'observed': np.asarray(d.eval(us)).tolist(),
                               'expected': dv.tolist()})
                if np.abs(np.asarray(s.deriv(us)) - dv).max() > 1e-10 * scale:
                    tally.add('Spline.deriv pointwise-values' + tag,
                              {'case': case, 'affine': [shift, scale_x], 'observed': np.asarray(s.deriv(us)).tolist(),
                               'expected': dv.tolist()})
        except Exception as ex:
            tally.add('exception %s Spline.derivative' % type(ex).__name__, {'case': case, 'affine': [shift, scale_x], 'error': repr(ex)})


def replay_mksmall(ctx, tally, r):
    from pyiga import bspline
    case = {k: r[k] for k in ('p', 'n', 'mult', 'a', 'b')}
    ctx.case(('mksmall', r['p'], r['n'], r['mult'], r['a'], r['b']), nontrivial=r['n'] >= 2,
             sample=case if _h(case) % 29 == 0 else None)
    try:
        if r['mult'] == 1 and _h(case) % 2:
            kv = bspline.make_knots(r['p'], float(r['a']), float(r['b']), r['n'])
        else:
            kv = bspline.make_knots(r['p'], float(r['a']), float(r['b']), r['n'], mult=r['mult'])
        want = np.array([float(frac(q)) for q in r['knots']])
        got = np.asarray(kv.kv, dtype=float)
        if got.shape != want.shape or np.abs(got - want).max() > 4e-16 * r['n'] * max(1, abs(r['a']), abs(r['b'])):
            tally.add('make_knots small-instance knots', {'case': case, 'observed': got.tolist(), 'expected': want.tolist()})
            return
        if int(kv.numdofs) != r['numdofs'] or int(kv.numspans) != r['n'] or int(kv.p) != r['p']:
            tally.add('make_knots small-instance numdofs/numspans', {'case': case, 'observed': [int(kv.numdofs), int(kv.numspans)]})
        sp = [int(kv.findspan(x)) for x in kv.mesh[:-1]]
        if sp != r['spans']:
            tally.add('make_knots small-instance findspan-at-breakpoints', {'case': case, 'observed': sp, 'expected': r['spans']})
    except Exception as ex:
        tally.add('exception %s make_knots small-instance' % type(ex).__name__, {'case': case, 'error': repr(ex)})


# ======================================================================================
# the sweep (runs in worker processes)

def _ulp(x):
    return float(np.spacing(abs(x))) if x != 0 else 5e-324


def check_make_knots(tally, r, a, b, ivname, exact_samples):
    """One make_knots call against the contract.  Fixed, tiny abstraction of the returned float array:
    np.unique(..., return_counts) -> run-length encoded multiplicity profile."""
    from pyiga import bspline
    p, n, mult = r['p'], r['n'], r['mult']
    case = {'p': p, 'n': n, 'mult': mult, 'a': repr(a), 'b': repr(b)}
    key = [p, n, mult]
    cls = ivname
    try:
        kv = bspline.make_knots(p, a, b, n, mult=mult) if mult != 1 else bspline.make_knots(p, a, b, n)
        t = np.asarray(kv.kv, dtype=float)
    except Exception as ex:
        tally.add('exception %s make_knots' % type(ex).__name__, {'case': case, 'error': repr(ex)}, key, cls)
        return
    if t.ndim != 1 or np.any(np.diff(t) < 0):
        tally.add('make_knots not-monotone', {'case': case}, key, cls)
        return
    if t[0] != a or t[-1] != b:
        tally.add('make_knots end-points-not-exact', {'case': case, 'first': repr(t[0]), 'last': repr(t[-1])}, key, cls)
    mesh, counts = np.unique(t, return_counts=True)
    # run-length encoding of the multiplicity profile
    rle = []
    for c in counts.tolist():
        if rle and rle[-1][0] == c:
            rle[-1][1] += 1
        else:
            rle.append([c, 1])
    if rle != r['rle']:
        nsp = len(mesh) - 1
        what = 'extra-span' if nsp > n else ('missing-span' if nsp < n else 'multiplicity-profile')
        tally.add('make_knots %s' % what,
                  {'case': case, 'observed_profile_rle': rle, 'expected_profile_rle': r['rle'],
                   'observed_spans': nsp, 'smallest_span': float(np.diff(mesh).min()), 'h': (b - a) / n}, key, cls)
        return
    if int(kv.numdofs) != r['numdofs'] or int(kv.numspans) != r['numspans'] or int(kv.numknots) != r['numknots']:
        tally.add('make_knots numdofs/numspans',
                  {'case': case, 'observed': [int(kv.numdofs), int(kv.numspans), int(kv.numknots)]}, key, cls)
    # equally spaced breakpoints: within 4 n ulp of a + i (b - a) / n
    tol = 4.0 * n * max(_ulp(a), _ulp(b))
    i = np.arange(n + 1)
    ideal = a + (b - a) * (i / n)
    if np.abs(mesh - ideal).max() > tol:
        tally.add('make_knots breakpoint-spacing',
                  {'case': case, 'max_dev': float(np.abs(mesh - ideal).max()), 'tol': tol}, key, cls)
    if exact_samples:
        fa, fb = Fraction(a), Fraction(b)
        for smp in r['samples']:
            x = frac(smp['x'])           # exact, for the rational interval of the spec
            xi = fa + Fraction(smp['i'], n) * (fb - fa)   # exact, for the floats actually passed
            if abs(Fraction(float(mesh[smp['i']])) - xi) > Fraction(tol) or abs(float(x) - float(xi)) > 1e-9 * max(1, abs(float(x))):
                tally.add('make_knots breakpoint-sample', {'case': case, 'i': smp['i'], 'observed': float(mesh[smp['i']]),
                                                                    'expected': float(xi)}, key, cls)
    # Greville abscissae of the generated knot vector: one per function, inside [a, b], non-decreasing, within rounding
    # of the exact knot averages (first, last and a middle one, in exact arithmetic on the floats actually stored)
    try:
        g = np.asarray(kv.greville(), dtype=float)
        nd = len(t) - p - 1
        okg = g.shape == (nd,) and g.min() >= t[0] and g.max() <= t[-1] and bool(np.all(np.diff(g) >= -4 * max(_ulp(a), _ulp(b))))
        if okg and p >= 1:
            for j in sorted({0, nd // 2, nd - 1}):
                ex = sum(Fraction(float(x)) for x in t[j + 1:j + p + 1]) / p
                if abs(Fraction(float(g[j])) - ex) > Fraction(8.0 * (p + 1) * max(_ulp(a), _ulp(b))):
                    okg = False
        if not okg:
            tally.add('greville-on-make_knots outside-domain-or-inexact',
                      {'case': case, 'over': float(g.max() - t[-1]) if g.size else None,
                       'under': float(t[0] - g.min()) if g.size else None}, key, cls)
    except Exception as ex:
        tally.add('exception %s greville-on-make_knots' % type(ex).__name__, {'case': case, 'error': repr(ex)}, key, cls)
    # span lookup at every breakpoint, its two neighbouring floats and the midpoints
    exp = r['span0'] + r['stride'] * np.arange(n)
    try:
        f = bspline.pyx_findspans
        s_at = f(t, p, np.ascontiguousarray(mesh[:-1]))
        s_up = f(t, p, np.nextafter(mesh[:-1], np.inf))
        s_dn = f(t, p, np.nextafter(mesh[1:], -np.inf))
        s_mid = f(t, p, 0.5 * (mesh[:-1] + mesh[1:]))
        s_end = int(bspline.pyx_findspan(t, p, float(mesh[-1])))
    except Exception as ex:
        tally.add('exception %s pyx_findspans' % type(ex).__name__, {'case': case, 'error': repr(ex)}, key, cls)
        return
    for nm, got in (('breakpoint', s_at), ('next-float-above', s_up), ('next-float-below', s_dn), ('midpoint', s_mid)):
        if not np.array_equal(np.asarray(got), exp):
            k = int(np.nonzero(np.asarray(got) != exp)[0][0])
            tally.add('findspan-on-make_knots %s' % nm,
                      {'case': case, 'breakpoint': k, 'observed': int(got[k]), 'expected': int(exp[k])}, key, cls)
    if s_end != int(exp[-1]):
        tally.add('findspan-on-make_knots right-end', {'case': case, 'observed': s_end, 'expected': int(exp[-1])}, key, cls)


def sweep_chunk(args):
    """worker: (repo path, records, seed, nrandom) -> (number of calls, Tally)"""
    repo, recs, seed, nrandom = args
    import sys
    if repo not in sys.path:
        sys.path.insert(0, repo)
    tally = Tally()
    calls = 0
    for r in recs:
        a, b = float(frac(r['a'])), float(frac(r['b']))
        name = '[%s,%s]' % (Fraction(*r['a']), Fraction(*r['b']))
        check_make_knots(tally, r, a, b, name, True)
        calls += 1
        if r['iv'] == 1:
            rng = np.random.RandomState((seed * 1000003 + _h(r['p'], r['n'], r['mult'])) % (2 ** 31))
            for _ in range(nrandom):
                ra = float(rng.choice([-1.0, 1.0]) * 10.0 ** rng.uniform(-6, 6)) if rng.rand() < 0.8 else 0.0
                rb = ra + float(10.0 ** rng.uniform(-6, 6))
                if not (ra < rb):
                    continue
                check_make_knots(tally, r, ra, rb, 'random', False)
                calls += 1
    return calls, tally


# ======================================================================================

def run(ctx):
    from .. import common
    ctx.rule = ('one case = one call enumerated by TLC: findspan(kv, u) for every small open knot vector and every '
                'quarter point of its domain (PlusCal transcription of pyx_findspan == declarative span); all queries '
                'of one knot vector; refine with <= 2 new knots or uniform; __eq__ on pairs; Spline.derivative for '
                'integer / linear / quadratic coefficient families; make_knots(p, a, b, n, mult) small explicit and the '
                'sweep p <= 6, mult <= max(p,1), n in Ns, 12 rational/decimal intervals plus random float intervals; '
                'non-trivial = at least one interior breakpoint')
    ctx.assumptions = [
        'the returned knot array is abstracted by np.unique(kv, return_counts=True) -> run-length encoded multiplicity '
        'profile; end points must be bitwise a and b; breakpoint i within 4 n ulp of a + i (b - a) / n',
        'small families use knots on a quarter-integer grid (plus two dyadic affine images), so float arithmetic is exact',
        'random intervals come from the harness RNG (seed VERIF_SEED), magnitudes 1e-6 .. 1e6',
    ]
    thorough = ctx.thorough
    small = dict(MaxP=4 if thorough else 3, MaxB=4 if thorough else 3, Ns={1}, IvSet={1}, BuggyCmp=False)
    jobs = []
    for fam in ('findspan', 'queries', 'refine', 'eq', 'deriv', 'mksmall'):
        c = dict(small, Family=fam)
        if fam == 'eq' and thorough:
            c.update(MaxP=3, MaxB=4)
        jobs.append((fam, c, ['Termination'] if fam == 'findspan' else [], 2))
    if thorough:
        ns = set(range(1, 2001))
    else:
        ns = set(range(1, 41)) | set(KNOWN_N) | {50, 64, 100, 128, 200, 256, 500, 512, 1000, 1024, 1999, 2000}
    groups = [set(range(1, NIV + 1))] if not thorough else [{1, 2, 3}, {4, 5, 6}, {7, 8, 9}, {10, 11, 12}]
    for gi, g in enumerate(groups):
        jobs.append(('sweep%d' % gi, dict(Family='sweep', MaxP=6, MaxB=1, Ns=ns, IvSet=g, BuggyCmp=False), [],
                     4 if thorough else 3))

    def one(job):
        name, consts, props, workers = job
        cfg = write_cfg(ctx.scratch / ('c19_%s.cfg' % name), consts, invariants=INVS, properties=props)
        return job, ctx.tlc('KnotVec', cfg, workers=workers, timeout=3000)

    with ThreadPoolExecutor(5) as ex:
        # unbounded counterpart of the findspan family: the same loop proved for ALL knot vectors (TLAPS); the bounded
        # PlusCal transcription of C02 (FindSpanPC.tla) is checked by TLC to refine the proved algorithm step by step
        tl = ex.submit(common.run_tlaps, ctx, 'FindSpanProof',
                       'pyx_findspan for ALL knot vectors: inductive loop invariant, result is the unique non-empty span '
                       'containing u (last span at the right end), bracket shrinks in every iteration')
        results = list(ex.map(one, jobs))
        tl.result()

    # negative control: with the comparison `>=` the transcribed loop no longer returns the declarative span
    neg = dict(Family='findspan', MaxP=2, MaxB=2, Ns={1}, IvSet={1}, BuggyCmp=True)
    ctx.expect_violation('KnotVec', write_cfg(ctx.scratch / 'c19_buggy.cfg', neg, invariants=INVS))

    tally = Tally()
    fns = {'findspan': replay_findspan, 'queries': replay_queries, 'refine': replay_refine, 'eq': replay_eq,
           'deriv': replay_deriv, 'mksmall': replay_mksmall}
    sweep = []
    for (name, consts, props, workers), res in results:
        recs = res.recs('KV')
        if not recs:
            raise MachineryError('no cases generated for family %s' % name)
        if name.startswith('sweep'):
            sweep.extend(recs)
            continue
        for r in recs:
            if r['kind'] != name:
                raise MachineryError('unexpected record kind %s in family %s' % (r['kind'], name))
            fns[name](ctx, tally, r)
    # the sweep, in worker processes
    missing = [n for n in KNOWN_N if not any(r['n'] == n for r in sweep)]
    if missing:
        raise MachineryError('sweep lacks the span counts %s' % missing)
    nrandom = 2 if not thorough else 1
    nproc = 6 if thorough else 4
    chunk = max(200, len(sweep) // (nproc * 8))
    chunks = [(str(common.REPO), sweep[i:i + chunk], ctx.seed, nrandom) for i in range(0, len(sweep), chunk)]
    calls = 0
    with ProcessPoolExecutor(nproc) as ex:
        for ncalls, t in ex.map(sweep_chunk, chunks):
            calls += ncalls
            tally.merge(t)
    for r in sweep:
        ctx.case(('sweep', r['p'], r['n'], r['mult'], r['iv']), nontrivial=r['n'] >= 2,
                 sample={k: r[k] for k in ('p', 'n', 'mult', 'a', 'b', 'rle', 'numdofs')}
                 if _h(r['p'], r['n'], r['mult'], r['iv']) % 20011 == 0 else None)
    ctx.evaluations += calls - len(sweep)
    ctx.notes['make_knots_calls'] = calls
    tally.flush(ctx)
    # small families are exhaustive in both tiers; the make_knots sweep covers every n <= 2000 only in the thorough tier
    ctx.exhaustive = bool(thorough)
