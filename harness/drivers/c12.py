"""C12 -- time integrators (pyiga/solvers.py).

  spec/TimeStep.tla   controllers + Newton over exact rationals; every behaviour TLC enumerates is
                      replayed (M1) on the REAL _adaptive_step_method / _constant_step_method / newton with a
                      scripted stepper / scripted F, J; tau sequences, times, outcomes must agree.
  spec/RKStage.tla    exact stage equations of rational tableaux on M y' = L y + c; every case replayed on
                      the REAL dirk_step / rosenbrock_step with dense / CSR / CSC / None mass matrices.
  spec/Tableau.tla    (M2) the coefficients of the shipped methods are read from the real code, sent to TLC as
                      decimal limbs (spec/DecLimb.tla) and TLC decides the order conditions exactly.
  numeric predicates  on the public entry points (clearly labelled `public:` in the case keys): y' = const
                      integrated exactly, one step of each shipped method == exact stage solution of the shipped
                      coefficients (harness rational oracle, itself validated against TLC's RKStage records),
                      adaptive drivers accept only steps that pass the scaled error test.
"""
import contextlib
import io
import json
import math
from concurrent.futures import ThreadPoolExecutor
from decimal import Decimal
from fractions import Fraction as Fr

import numpy as np
import scipy.sparse as sp

from .. import c12_oracle as orc
from ..common import MachineryError, frac, write_cfg

TS_INVS = ['TimesIncrease', 'TimesAreSteps', 'AcceptIffRatioLeOne', 'RatioBounds', 'EndReached',
           'ModelBounded', 'ConstTimes', 'NewtonPost', 'EmitBeh']
RK_INVS = ['StageEqsHold', 'ShortcutIsRK', 'RosIsDirkOnLinear', 'ConstExact', 'EmitCase']

# documented orders (main, embedded): source comments in solvers.py for the DIRK schemes; for the Rosenbrock
# schemes the order of the cited paper (John/Rang, doi 10.1016/j.cma.2009.10.005) and, for the embedded
# weights, the err_order the coefficient function itself returns
DIRK_ORDERS = {'crank_nicolson': (2, 0), 'sdirk3': (3, 0), 'sdirk3_b': (4, 0), 'sdirk21': (2, 1),
               'dirk34': (3, 2), 'esdirk23': (2, 3), 'esdirk34': (3, 4)}
ROS_ORDERS = {'ros3p': 3, 'ros3pw': 3, 'rowdaind2': 3, 'rodasp': 4, 'rosi2p1': 3}
CN_TEXTBOOK = np.array([[0.0, 0.0], [0.5, 0.5], [0.5, 0.5]])     # the definition of Crank-Nicolson
NL, FRL = 12, 6


class Stop(Exception):
    """raised by a scripted callback when the real code asks for more than the behaviour contains"""


def rel_close(x, q, tol=1e-12):
    q = float(q)
    return abs(float(x) - q) <= tol * max(1.0, abs(q))


def is_pow2(n):
    return n > 0 and n & (n - 1) == 0


# =====================================================================================================
# Tableau (M2)

def dec_limbs(x):
    d = Decimal(repr(float(x)))
    sc = d.scaleb(4 * FRL)
    if sc != sc.to_integral_value():
        raise MachineryError('coefficient %r has more than %d decimals' % (x, 4 * FRL))
    n = int(sc)
    s = -1 if n < 0 else 1
    n = abs(n)
    limbs = []
    for _ in range(NL):
        limbs.append(n % 10000)
        n //= 10000
    if n:
        raise MachineryError('coefficient %r too large' % x)
    return {'s': s, 'd': limbs}


def shipped_tableaux():
    """Read the coefficient tables from the real code.  Returns {name: dict(kind, A, G, b, bhat, order, eorder,
    err_order)} with numpy arrays."""
    from pyiga import solvers
    out = {}
    for name, (o, eo) in DIRK_ORDERS.items():
        if name == 'crank_nicolson':
            T, err = CN_TEXTBOOK, None      # literal table inside solvers.py; bound to the code by check_public_step
        else:
            T = getattr(solvers, 'coeffs_' + name)()
            err = None
            if isinstance(T, tuple):
                T, err = T
        T = np.asarray(T, dtype=float)
        s = T.shape[1]
        out[name] = dict(kind='dirk', A=T[:s], G=None, b=T[s], bhat=T[s + 1] if T.shape[0] == s + 2 else None,
                         order=o, eorder=eo if T.shape[0] == s + 2 else 0, err_order=err, table=T)
    for name, o in ROS_ORDERS.items():
        A, G, b, bh, err = getattr(solvers, 'coeffs_' + name)()
        out[name] = dict(kind='ros', A=np.asarray(A, float), G=np.asarray(G, float), b=np.asarray(b, float),
                         bhat=np.asarray(bh, float), order=o, eorder=int(err), err_order=err)
    return out


def fr_residuals(t):
    """Independent exact evaluation (Fractions of the decimal strings) of the same conditions, used only to
    cross-check TLC's limb arithmetic."""
    f = lambda x: Fr(repr(float(x)))
    s = len(t['b'])
    al = [[f(v) for v in r] for r in t['A']]
    be = al if t['kind'] == 'dirk' else [[al[i][j] + f(t['G'][i][j]) for j in range(s)] for i in range(s)]
    a = [sum(r) for r in al]
    bt = [sum(r) for r in be]
    mvv = lambda M, v: [sum(M[i][j] * v[j] for j in range(s)) for i in range(s)]
    names = (['sum_b', 'b_c', 'b_c2', 'b_A_c', 'b_c3', 'b_c_A_c', 'b_A_c2', 'b_A_A_c'] if t['kind'] == 'dirk' else
             ['sum_b', 'b_beta', 'b_alpha2', 'b_beta_beta', 'b_alpha3', 'b_alpha_alpha_beta', 'b_beta_alpha2',
              'b_beta_beta_beta'])

    def conds(w):
        w = [f(v) for v in w]
        dot = lambda v: sum(x * y for x, y in zip(w, v))
        vals = [sum(w) - 1, dot(bt) - Fr(1, 2), dot([x * x for x in a]) - Fr(1, 3), dot(mvv(be, bt)) - Fr(1, 6),
                dot([x ** 3 for x in a]) - Fr(1, 4), dot([x * y for x, y in zip(a, mvv(al, bt))]) - Fr(1, 8),
                dot(mvv(be, [x * x for x in a])) - Fr(1, 12), dot(mvv(be, mvv(be, bt))) - Fr(1, 24)]
        return dict(zip(names, vals))
    return {'main': conds(t['b']), 'embedded': conds(t['bhat']) if t['bhat'] is not None else {}}


def run_tableau(ctx, tabs):
    meths = []
    for name, t in tabs.items():
        m = lambda A: [[dec_limbs(x) for x in r] for r in A]
        meths.append(dict(name=name, kind=t['kind'], s=len(t['b']), A=m(t['A']),
                          G=m(t['G']) if t['G'] is not None else [], b=[dec_limbs(x) for x in t['b']],
                          bhat=[dec_limbs(x) for x in t['bhat']] if t['bhat'] is not None else [],
                          order=t['order'], eorder=t['eorder']))
    path = ctx.scratch / 'tableaux.json'
    path.write_text(json.dumps({'methods': meths}))
    cfg = write_cfg(ctx.scratch / 'tableau.cfg', invariants=['TypeOK'])
    return ctx.tlc('Tableau', cfg, env={'TABLEAU_FILE': str(path)}, workers=1, timeout=1200)


def check_tableau(ctx, res, tabs):
    n_per = {1: 1, 2: 2, 3: 4, 4: 8, 0: 0}
    expected = sum(n_per[t['order']] + n_per[t['eorder']] for t in tabs.values())
    conds = res.recs('COND')
    if len(conds) != expected or len(res.recs('STRUCT')) != len(tabs):
        raise MachineryError('Tableau: %d COND records, expected %d' % (len(conds), expected))
    for st in res.recs('STRUCT'):
        ctx.case(('tableau-struct', st['tableau']), nontrivial=False)
        if not st['ok']:
            ctx.violation('tableau=%s condition=structure' % st['tableau'],
                          {'what': 'A not lower triangular / Gamma diagonal not constant'})
    ref = {n: fr_residuals(t) for n, t in tabs.items()}
    failed = {}
    for c in conds:
        val = c['sign'] * Fr(sum(l * 10000 ** k for k, l in enumerate(c['limbs'])), 10 ** (4 * FRL))
        exact = ref[c['tableau']][c['weights']][c['condition']]
        if abs(val - exact) > Fr(1, 10 ** 20):
            raise MachineryError('DecLimb arithmetic disagrees with Fractions: %s %s' % (c, float(exact)))
        ctx.case(('tableau', c['tableau'], c['weights'], c['condition']), nontrivial=c['order'] >= 2,
                 sample={'tableau': c['tableau'], 'weights': c['weights'], 'condition': c['condition'],
                         'residual': float(val)} if c['condition'] in ('b_A_A_c', 'b_beta_beta_beta') else None)
        if not c['ok']:
            failed.setdefault((c['tableau'], c['weights']), []).append((c['order'], c['condition'], float(val)))
    # one violation per (tableau, weights): the lowest-order failing condition names it, all residuals in the detail
    for (tab, w), lst in sorted(failed.items()):
        lst.sort()
        ctx.violation('tableau=%s weights=%s condition=%s' % (tab, w, lst[0][1]),
                      {'documented_order': tabs[tab]['order'] if w == 'main' else tabs[tab]['eorder'],
                       'failing_conditions': [{'order': o, 'condition': c, 'residual': v} for o, c, v in lst],
                       'threshold': 1e-8})


# =====================================================================================================
# TimeStep (M1)

def run_timestep(ctx, mode):
    grid = 2 if ctx.thorough else 1
    jobs = []
    if mode == 'adaptive':
        jobs.append(dict(consts=dict(Mode=mode, Grid=grid, MaxCalls=3 if ctx.thorough else 4, NumBound=0, DoEmit=True),
                         kw=dict(workers=4)))
        if ctx.thorough:    # deep random behaviours beyond the exhaustive bound
            jobs.append(dict(consts=dict(Mode=mode, Grid=1, MaxCalls=4, NumBound=0, DoEmit=True), kw=dict(workers=4)))
            jobs.append(dict(consts=dict(Mode=mode, Grid=2, MaxCalls=14, NumBound=2048, DoEmit=True),
                             kw=dict(workers=2, simulate=6000, depth=16, seed=ctx.seed + 12)))
    elif mode == 'model':
        jobs.append(dict(consts=dict(Mode=mode, Grid=grid, MaxCalls=400, NumBound=0, DoEmit=True), kw=dict(workers=1),
                         spec='LiveSpec', properties=['Termination']))
    else:
        jobs.append(dict(consts=dict(Mode=mode, Grid=grid, MaxCalls=0, NumBound=0, DoEmit=True), kw=dict(workers=2)))
    out = []
    for n, j in enumerate(jobs):
        cfg = write_cfg(ctx.scratch / ('ts_%s_%d.cfg' % (mode, n)), j['consts'], invariants=TS_INVS,
                        spec=j.get('spec', 'Spec'), properties=j.get('properties', ()))
        r = ctx.tlc('TimeStep', cfg, timeout=3000, **j['kw'])
        out += r.recs('BEH')
    if not out:
        raise MachineryError('TimeStep/%s produced no behaviours' % mode)
    return out


def sig_beh(beh):
    p = beh['par']
    evs = [e['k'] if e['k'] != 'r' else '%d/%d' % tuple(e['s']) for e in beh.get('events', [])]
    ev = ','.join(evs) if len(evs) <= 8 else ','.join(evs[:6]) + ',...(%d events)' % len(evs)
    return 'par=%s events=[%s]' % (json.dumps(p, sort_keys=True, separators=(',', ':')), ev)


def replay_adaptive(ctx, beh, via_public=None):
    """Drive the real adaptive controller along one TLC behaviour with a scripted stepper."""
    from pyiga import solvers
    par, events = beh['par'], beh['events']
    q = par['q']
    t0, tend, tau0, sf = (frac(par[k]) for k in ('t0', 'tend', 'tau0', 'sf'))
    spec_times = [frac(t) for t in beh['times']]
    taus = [frac(e['tau']) for e in events] + [frac(beh['tau'])]
    # float-rounding ambiguity of `t < t_end`: an accepted time that equals t_end exactly although the step sizes
    # are not dyadic may be one ulp off in floating point -> not decidable at property level, skip
    dyadic = all(is_pow2(t.denominator) for t in taus)
    if not dyadic and any(t == tend or 0 < abs(t - tend) < Fr(1, 10 ** 9) for t in spec_times):
        ctx.skip('adaptive behaviour with a non-dyadic time on t_end: ' + sig_beh(beh))
        return
    tol = 2.0 ** -10
    calls = []
    x0 = np.zeros(1)
    C = frac(par['C']) if 'C' in par else None

    def stepper(M, F, J, x, tau, data, Fx=None):
        k = len(calls)
        calls.append((float(tau), Fx))
        if k >= len(events):
            raise Stop()
        e = events[k]
        if e['k'] == 'fail':
            raise solvers.NoConvergenceError('newton', 1, x)
        r = 0.0 if e['k'] == 'zero' else float(frac(e['s']) ** q)
        # (model mode: r = C tau^2 holds for the spec's tau; a deviation of the real tau shows up in the comparison
        # of the tau sequences below)
        xnew = x.copy()
        return xnew, xnew + r * tol, k + 1

    fake_dirk = lambda A, *a, **kw: stepper(*a, **kw)
    raised = None
    try:
        if via_public is None:
            method = solvers._adaptive_step_method(stepper, q, None)
            times, sols = method(None, None, None, x0, float(tau0), float(tend), tol, t0=float(t0),
                                 step_factor=float(sf))
        else:
            name, attr = via_public
            orig = getattr(solvers, attr)
            setattr(solvers, attr, fake_dirk if attr == 'dirk_step' else
                    (lambda A, G, b, bh, *a, **kw: stepper(*a, **kw)))
            try:
                times, sols = getattr(solvers, name)(None, None, None, x0, float(tau0), float(tend), tol,
                                                     t0=float(t0), step_factor=float(sf))
            finally:
                setattr(solvers, attr, orig)
            if not calls and events:
                ctx.skip('public %s does not resolve %s at call time; monkeypatch route unavailable' % (name, attr))
                return
    except Stop:
        raised = 'stop'
        times = sols = None
    except MachineryError:
        raise
    except Exception as ex:
        ctx.violation('exception %s adaptive-controller %s' % (type(ex).__name__, sig_beh(beh)),
                      {'beh': beh, 'error': repr(ex)})
        return
    sig = ('public=%s ' % via_public[0] if via_public else '') + sig_beh(beh)
    # number of stepper calls and the step sizes they were made with
    want_calls = len(events) + (0 if beh['done'] else 1)
    got_taus = [c[0] for c in calls]
    want_taus = [float(t) for t in (taus if not beh['done'] else taus[:-1])]
    if len(calls) != want_calls or not all(rel_close(g, w) for g, w in zip(got_taus, want_taus)):
        ctx.violation('adaptive tau-sequence ' + sig, {'beh': beh, 'expected_taus': want_taus, 'got_taus': got_taus,
                                                      'terminated': raised is None})
        return
    # which call was the last accepted one when the next call was made (Fx carries the tag of an accepted step)
    last = None
    for k, e in enumerate(events):
        if calls[k][1] != last:
            ctx.violation('adaptive accept-decision ' + sig, {'beh': beh, 'call': k, 'Fx_tag': calls[k][1],
                                                             'expected_tag': last})
            return
        if e['acc']:
            last = k + 1
    if beh['done']:
        if raised is not None:
            ctx.violation('adaptive does-not-terminate ' + sig, {'beh': beh})
            return
        ok = (len(times) == len(spec_times) and len(sols) == len(times)
              and all(rel_close(g, w) for g, w in zip(times, spec_times))
              and all(b > a for a, b in zip(times, times[1:])) and times[-1] >= float(tend))
        if not ok:
            ctx.violation('adaptive returned-times ' + sig, {'beh': beh, 'got_times': list(map(float, times)),
                                                            'n_solutions': len(sols)})
    elif raised is None:
        ctx.violation('adaptive stops-early ' + sig, {'beh': beh, 'got_times': list(map(float, times))})


def replay_constant(ctx, beh, via_public=None):
    from pyiga import solvers
    par = beh['par']
    t0, tend, tau = (frac(par[k]) for k in ('t0', 'tend', 'tau'))
    failat = par['failat']
    calls = []

    def stepper(M, F, J, x, tau_, data, Fx=None):
        k = len(calls)
        calls.append((float(tau_), Fx, float(x[0])))
        if failat == k + 1:
            raise solvers.NoConvergenceError('newton', 1, x)
        if k > 50:
            raise Stop()
        return x + 1.0, k + 1
    sig = ('public=%s ' % via_public[0] if via_public else '') + 'constant par=%s' % json.dumps(par, sort_keys=True)
    x0 = np.zeros(1)
    out = io.StringIO()
    try:
        with contextlib.redirect_stdout(out):
            if via_public is None:
                times, sols = solvers._constant_step_method(stepper)(None, None, None, x0, float(tau), float(tend),
                                                                     t0=float(t0))
            else:
                name, attr, adaptive = via_public
                orig = getattr(solvers, attr)
                setattr(solvers, attr, (lambda A, *a, **kw: stepper(*a, **kw)) if attr == 'dirk_step' else
                        (lambda A, G, b, bh, *a, **kw: stepper(*a, **kw)))
                try:
                    args = (None, None, None, x0, float(tau), float(tend)) + ((None,) if adaptive else ())
                    times, sols = getattr(solvers, name)(*args, t0=float(t0))
                finally:
                    setattr(solvers, attr, orig)
                if not calls and beh['ncalls']:
                    ctx.skip('public %s does not resolve %s at call time' % (name, attr))
                    return
    except Exception as ex:
        ctx.violation('exception %s constant-step %s' % (type(ex).__name__, sig), {'beh': beh, 'error': repr(ex)})
        return
    want = [float(frac(t)) for t in beh['times']]
    ok = (list(map(float, times)) == want and len(sols) == len(times)
          and [float(s[0]) for s in sols] == [float(k) for k in range(len(want))]
          and len(calls) == beh['ncalls'] and all(c[0] == float(tau) for c in calls)
          and all(c[1] == (k if k else None) and c[2] == float(k) for k, c in enumerate(calls)))
    if not ok:
        ctx.violation('constant-step ' + sig, {'beh': beh, 'got_times': list(map(float, times)),
                                              'n_solutions': len(sols), 'calls': calls})


def replay_newton(ctx, beh, sparse_jac=False):
    from pyiga import solvers
    par = beh['par']
    atol, rtol = float(frac(par['atol'])), float(frac(par['rtol']))
    script = [float(frac(beh['res0']))] + [float(frac(r)) for r in beh['script']]
    fcalls, jat = [], []

    def F(x):
        k = len(fcalls)
        if k >= len(script):
            raise Stop()
        fcalls.append(float(x[0]))
        return np.array([script[k]])

    def J(x):
        m = len(jat)
        jat.append(len(fcalls) - 1)
        v = 2.0 ** m
        return sp.csr_matrix(np.array([[v]])) if sparse_jac else np.array([[v]])
    sig = 'newton par=%s res0=%s script=%s' % (json.dumps(par, sort_keys=True), beh['res0'], beh['script'])
    x0 = [1.0]
    try:
        x = solvers.newton(F, J, x0, atol=atol, rtol=rtol, maxiter=par['maxiter'], freeze_jac=par['freeze'])
        outcome, xv = 'returned', float(np.asarray(x).ravel()[0])
    except solvers.NoConvergenceError as ex:
        outcome, xv = 'raised', float(np.asarray(ex.last_iterate).ravel()[0])
        if ex.num_iter != par['maxiter']:
            ctx.violation('newton reported-iterations ' + sig, {'beh': beh, 'num_iter': ex.num_iter})
            return
    except Stop:
        outcome, xv = 'extra-F-call', None
    except Exception as ex:
        ctx.violation('exception %s %s' % (type(ex).__name__, sig), {'beh': beh, 'error': repr(ex)})
        return
    ok = (outcome == beh['outcome'] and len(fcalls) == beh['nF'] and jat == beh['jacAt']
          and rel_close(xv, frac(beh['x']), 1e-14) and x0 == [1.0])
    if not ok:
        ctx.violation('newton-mismatch ' + sig, {'beh': beh, 'outcome': outcome, 'nF': len(fcalls), 'jacAt': jat, 'x': xv})


# =====================================================================================================
# RKStage (M1)

def fmat(M):
    return np.array([[float(frac(v)) for v in r] for r in M], dtype=float)


def fvec(v):
    return np.array([float(frac(x)) for x in v], dtype=float)


def mass_variants(M):
    out = [('dense', M.copy()), ('csr', sp.csr_matrix(M)), ('csc', sp.csc_matrix(M))]
    if np.array_equal(M, np.eye(M.shape[0])):
        out.append(('None', None))
    return out


def vec_close(got, want, tol):
    got = np.asarray(got, float).ravel()
    want = np.array([float(w) for w in want])
    return got.shape == want.shape and bool(np.all(np.abs(got - want) <= tol * np.maximum(1.0, np.abs(want))))


def check_oracle_against_tlc(case):
    """the harness oracle must reproduce TLC's exact values (otherwise it may not be used at all)"""
    T, P = case['tableau'], case['problem']
    fm = lambda M: [[frac(v) for v in r] for r in M]
    fv = lambda v: [frac(x) for x in v]
    args = (fm(P['M']), fm(P['L']), fv(P['c']), fv(P['x']), frac(case['tau']))
    if T['kind'] == 'dirk':
        xn, xe, _ = orc.dirk(fm(T['A']), fv(T['b']), fv(T['bhat']), *args)
    else:
        xn, xe, _ = orc.ros(fm(T['A']), fm(T['G']), fv(T['b']), fv(T['bhat']), *args)
    if xn != fv(case['xnew']) or (xe or []) != fv(case['xest']):
        raise MachineryError('harness oracle disagrees with RKStage.tla on %s/%s' % (T['name'], P['name']))


def replay_rkcase(ctx, case, tol=1e-12):
    from pyiga import solvers
    T, P = case['tableau'], case['problem']
    tau = float(frac(case['tau']))
    L, c, x0 = fmat(P['L']), fvec(P['c']), fvec(P['x'])
    want_new = [frac(v) for v in case['xnew']]
    want_est = [frac(v) for v in case['xest']]
    emb = bool(T['bhat'])
    F = lambda y: L @ y + c
    for mname, M in mass_variants(fmat(P['M'])):
        for jname in ('dense', 'csr'):
            J = (lambda y: L) if jname == 'dense' else (lambda y: sp.csr_matrix(L))
            sig = 'tableau=%s problem=%s tau=%s M=%s J=%s' % (T['name'], P['name'], case['tau'], mname, jname)
            x = x0.copy()
            try:
                if T['kind'] == 'dirk':
                    tab = np.vstack([fmat(T['A']), fvec(T['b'])[None, :]] + ([fvec(T['bhat'])[None, :]] if emb else []))
                    res = solvers.dirk_step(tab, M, F, J, x, tau)
                    fxnew = res[-1]
                    if fxnew is not None and not np.allclose(fxnew, F(np.asarray(res[0])), rtol=0, atol=1e-10 * max(1, abs(L).max())):
                        ctx.violation('dirk_step returned-F-not-F(x_new) ' + sig, {'case': case})
                    if case['sa'] != (fxnew is not None):
                        pass        # which value is cached is not part of the property
                    if T['A'][0][0] == [0, 1]:      # explicit first stage: passing Fx = F(x) must not change the result
                        res2 = solvers.dirk_step(tab, M, F, J, x, tau, Fx=F(x))
                        if not np.allclose(res2[0], res[0], rtol=1e-13, atol=1e-13):
                            ctx.violation('dirk_step Fx-argument-changes-result ' + sig, {'case': case})
                else:
                    res = solvers.rosenbrock_step(fmat(T['A']), fmat(T['G']), fvec(T['b']), fvec(T['bhat']) if emb else None,
                                                  M, F, J, x, tau, dict())
            except Exception as ex:
                kind = 'dirk_step' if T['kind'] == 'dirk' else 'rosenbrock_step'
                ctx.violation('exception %s %s M=%s' % (type(ex).__name__, kind, mname), {'case': sig, 'error': repr(ex)})
                continue
            ctx.case(('rk', T['name'], P['name'], tuple(case['tau']), mname, jname),
                     nontrivial=T['s'] >= 2 or P['n'] >= 2,
                     sample={'case': sig, 'x_new': [float(v) for v in want_new]} if mname == 'csr' and T['s'] == 3 else None)
            if not np.array_equal(x, x0):
                ctx.violation('step mutates-input ' + sig, {'case': case})
            if len(res) != (3 if emb else 2) or not vec_close(res[0], want_new, tol):
                ctx.violation('stage-equations x_new ' + sig, {'case': case, 'got': np.asarray(res[0]).tolist()})
            elif emb and not vec_close(res[1], want_est, tol):
                ctx.violation('stage-equations x_est ' + sig, {'case': case, 'got': np.asarray(res[1]).tolist()})


# =====================================================================================================
# numeric predicates on the public entry points

def public_call(name, t, M, F, J, x, tau, t_end, tol=None, **kw):
    from pyiga import solvers
    f = getattr(solvers, name)
    with contextlib.redirect_stdout(io.StringIO()):
        if t['err_order'] is not None:
            return f(M, F, J, x, tau, t_end, tol, **kw)
        return f(M, F, J, x, tau, t_end, **kw)


def stepname(t):
    return 'dirk_step' if t['kind'] == 'dirk' else 'rosenbrock_step'


def oracle_step(t, M, L, c, x, tau):
    fm = lambda A: [[orc.fr(float(v)) for v in r] for r in A]
    fv = lambda v: [orc.fr(float(a)) for a in v]
    if sp.issparse(M):
        M = M.toarray()
    Mx = fm(M if M is not None else np.eye(len(x)))
    if t['kind'] == 'dirk':
        return orc.dirk(fm(t['A']), fv(t['b']), fv(t['bhat']) if t['bhat'] is not None else [], Mx, fm(L), fv(c), fv(x),
                        orc.fr(float(tau)))
    return orc.ros(fm(t['A']), fm(t['G']), fv(t['b']), fv(t['bhat']) if t['bhat'] is not None else [], Mx, fm(L), fv(c),
                   fv(x), orc.fr(float(tau)))


def check_public(ctx, tabs):
    Md = np.array([[2.0, 1.0], [1.0, 2.0]])
    masses = [('dense', Md), ('csr', sp.csr_matrix(Md)), ('None', None)]
    c = np.array([1.0, -2.0])
    x0 = np.array([1.0, 2.0])
    Z = np.zeros((2, 2))
    Lc = np.array([[-2.0, 1.0], [1.0, -3.0]])
    Ls = np.array([[0.0, 1.0], [-1000.0, -1001.0]])     # the stiff system of the repository's own test
    taus = [1.0, 0.1, 0.01, 0.001] if ctx.thorough else [0.1, 0.001]
    for name, t in tabs.items():
        for mname, M in masses:
            Mnum = Md if M is not None else np.eye(2)
            # (E1) y' = const is integrated exactly (consistency of the main weights, seen through the driver)
            key = 'public: method=%s clause=const_rhs_exact M=%s' % (name, mname)
            try:
                times, sols = public_call(name, t, M, lambda y: c, lambda y: Z, x0.copy(), 0.25, 1.0)
                ctx.case(key)
                want = [x0 + tk * np.linalg.solve(Mnum, c) for tk in times]
                if list(times) != [0.0, 0.25, 0.5, 0.75, 1.0] or len(sols) != 5:
                    ctx.violation('method=%s clause=constant_step_times' % name, {'times': list(map(float, times))})
                elif not all(np.allclose(s, w, rtol=0, atol=1e-12) for s, w in zip(sols, want)):
                    ctx.violation('method=%s clause=const_rhs_exact' % name,
                                  {'M': mname, 'y(1)': np.asarray(sols[-1]).tolist(), 'exact': want[-1].tolist()})
            except Exception as ex:
                ctx.violation('exception %s %s M=%s' % (type(ex).__name__, stepname(t), mname),
                              {'error': repr(ex), 'method': name, 'clause': 'const_rhs'})
                continue
            # (E2) one step of the public method == exact stage solution of its shipped coefficients
            for L in (Lc, Ls):
                for tau in taus:
                    key = 'public: method=%s clause=one_step M=%s L=%s tau=%g' % (name, mname, 'stiff' if L is Ls else 'coupled', tau)
                    try:
                        times, sols = public_call(name, t, M, lambda y: L @ y + c, lambda y: L, x0.copy(), tau, tau)
                    except Exception as ex:
                        ctx.violation('exception %s %s M=%s' % (type(ex).__name__, stepname(t), mname),
                                      {'error': repr(ex), 'method': name, 'case': key})
                        continue
                    ctx.case(key, sample={'case': key} if tau == 0.1 and name == 'rodasp' else None)
                    xn, _, _ = oracle_step(t, M, L, c, x0, tau)
                    if len(sols) != 2 or not vec_close(sols[1], xn, 1e-10):
                        ctx.violation('method=%s clause=one_step_stage_equations' % name,
                                      {'case': key, 'got': np.asarray(sols[-1]).tolist(), 'exact': [float(v) for v in xn]})
        # (E3) adaptive drivers: every accepted step is the scheme's step and passes the scaled error test
        if t['err_order'] is None:
            continue
        for tol in ((1e-2, 1e-4) if ctx.thorough else (1e-3,)):
            key = 'public: method=%s clause=adaptive tol=%g' % (name, tol)
            L = Lc
            try:
                times, sols = public_call(name, t, Md, lambda y: L @ y + c, lambda y: L, x0.copy(), 0.5, 2.0, tol)
            except Exception as ex:
                ctx.violation('exception %s method=%s adaptive' % (type(ex).__name__, name), {'error': repr(ex)})
                continue
            ctx.case(key, sample={'case': key, 'steps': len(times) - 1} if name == 'esdirk34' else None)
            bad = None
            if len(times) != len(sols) or not all(b > a for a, b in zip(times, times[1:])) or times[-1] < 2.0 \
                    or any(tk >= 2.0 for tk in times[:-1]) or times[0] != 0.0:
                bad = {'what': 'times', 'times': list(map(float, times))}
            else:
                taus_acc = np.diff(times)
                for k in range(len(taus_acc)):
                    xn, xe, _ = oracle_step(t, Md, L, c, sols[k], taus_acc[k])
                    xn, xe = np.array(list(map(float, xn))), np.array(list(map(float, xe)))
                    r = np.linalg.norm((xe - xn) / (tol + tol * np.abs(sols[k]))) / math.sqrt(2)
                    if not np.allclose(sols[k + 1], xn, rtol=1e-9, atol=1e-9):
                        bad = {'what': 'accepted state is not the step result', 'k': k}
                    elif r > 1 + 1e-6:
                        bad = {'what': 'accepted step fails the scaled error test', 'k': k, 'r': float(r)}
                    elif k and taus_acc[k] > 5 * taus_acc[k - 1] * (1 + 1e-9):
                        bad = {'what': 'step grew by more than 5', 'k': k}
                    if bad:
                        break
            if bad:
                ctx.violation('method=%s clause=adaptive_%s' % (name, bad['what'].replace(' ', '_')), dict(bad, case=key))


def check_nonlinear(ctx, tabs):
    """Smooth nonlinear right-hand side: Rosenbrock steps are explicit formulas (compared to 1e-11 with a float
    transcription of the reference equations), DIRK stages are Newton solutions (compared within the Newton
    tolerance 1e-4 of dirk_step, propagated with |(M - tau a J)^-1| <= 1)."""
    from pyiga import solvers
    M = np.array([[2.0, 0.5], [0.5, 1.0]])
    Lm = np.array([[-1.0, 0.5], [0.0, -2.0]])
    F = lambda y: Lm @ y - 0.25 * y ** 3 + np.array([0.5, 0.0])
    J = lambda y: Lm - 0.75 * np.diag(y ** 2)
    x0 = np.array([1.0, -0.5])
    for name, t in tabs.items():
        for tau in (0.5, 0.05):
            key = 'public: method=%s clause=nonlinear tau=%g' % (name, tau)
            if t['kind'] == 'ros':
                A, G, b = t['A'], t['G'], t['b']
                jac = J(x0)
                C = M - tau * G[0, 0] * jac
                ks = []
                for i in range(len(b)):
                    yi = x0 + tau * sum((A[i, j] * ks[j] for j in range(i)), np.zeros(2))
                    wi = sum((G[i, j] * ks[j] for j in range(i)), np.zeros(2))
                    ks.append(np.linalg.solve(C, F(yi) + tau * jac @ wi))
                want = x0 + tau * sum(b[i] * ks[i] for i in range(len(b)))
                tolr = 1e-11
            else:
                A, b = t['A'], t['b']
                Fs = []
                for i in range(len(b)):
                    base = M @ x0 + tau * sum((A[i, j] * Fs[j] for j in range(i)), np.zeros(2))
                    y = x0.copy()
                    for _ in range(60):     # full Newton to machine precision
                        g = M @ y - tau * A[i, i] * F(y) - base
                        y = y - np.linalg.solve(M - tau * A[i, i] * J(y), g)
                    Fs.append(F(y))
                want = x0 + tau * np.linalg.solve(M, sum(b[i] * Fs[i] for i in range(len(b))))
                tolr = 2e-3
            try:
                times, sols = public_call(name, t, M, F, J, x0.copy(), tau, tau)
            except Exception as ex:
                ctx.violation('exception %s method=%s nonlinear' % (type(ex).__name__, name), {'error': repr(ex)})
                continue
            ctx.case(key)
            if not np.allclose(sols[-1], want, rtol=0, atol=tolr):
                ctx.violation('method=%s clause=nonlinear_step' % name, {'case': key, 'got': np.asarray(sols[-1]).tolist(),
                                                                        'want': want.tolist(), 'tol': tolr})
            # the steppers must be memoryless: in a multi-step run (constant step size, so that anything cached
            # per step size / per run would be reused) every step equals a single fresh step from the previous state
            try:
                times3, sols3 = public_call(name, t, M, F, J, x0.copy(), tau, 3 * tau)
                ok = len(sols3) >= 3 and len(sols3) == len(times3)     # 3*tau may round up to a 4th step
                worst = 0.0
                for kk in range(len(sols3) - 1):
                    _, one = public_call(name, t, M, F, J, np.array(sols3[kk], dtype=float).copy(), tau, tau)
                    worst = max(worst, float(np.abs(np.asarray(one[-1]) - np.asarray(sols3[kk + 1])).max()))
                ctx.case(key + ' multi-step')
                if not ok or worst > 1e-10:
                    ctx.violation('method=%s clause=multi_step_not_memoryless' % name,
                                  {'case': key, 'max_deviation_from_fresh_single_step': worst, 'steps': len(sols3) - 1})
            except Exception as ex:
                ctx.violation('exception %s method=%s nonlinear multi-step' % (type(ex).__name__, name), {'error': repr(ex)})


# =====================================================================================================

def run(ctx):
    ctx.rule = ('(a) TimeStep.tla: every behaviour of the adaptive controller (adversarial error ratios incl. r=0 and '
                'Newton failure, q in {1,2}, bounded number of stepper calls), of the controller under r=C tau^2, of the '
                'constant-step driver and of Newton (scripted residuals) is replayed on the real code; non-trivial = at '
                'least one rejected/failed step or >= 2 Newton iterations. (b) RKStage.tla: tableau x problem x tau x '
                'mass-matrix format x Jacobian format; non-trivial = >= 2 stages or 2x2 system. (c) Tableau.tla: one '
                'case per (shipped tableau, weights, order condition), coefficients read from the real code. '
                '(d) `public:` cases are numeric predicates on the public methods.')
    ctx.assumptions = [
        'error order q in {1,2} and error-ratio alphabets with rational q-th roots; other exponents only through the '
        'public-method numeric predicates',
        'the scripted stepper fixes x = 0 (so d = tol) and tol = 2^-10: the ratio r the controller computes is exactly '
        'the scripted one',
        'stage equations are checked exactly only for linear right-hand sides M y\' = L y + c (n <= 2); nonlinear '
        'problems only within the Newton tolerance of dirk_step (atol 1e-4)',
        'order conditions up to order 4 for ODEs (nonsingular M); DAE/index-1 and W-method conditions of the '
        'Rosenbrock schemes are not checked',
        'float comparisons: 1e-12 relative for rational tableaux, 1e-10 for one step of the shipped methods',
    ]
    from pyiga import solvers  # noqa: F401  (fail early if the build is broken)
    tabs = shipped_tableaux()

    with ThreadPoolExecutor(3) as ex:
        f_tab = ex.submit(run_tableau, ctx, tabs)
        grid = 2 if ctx.thorough else 1
        cfg = write_cfg(ctx.scratch / 'rk.cfg', dict(Grid=grid, DoEmit=True), invariants=RK_INVS)
        f_rk = ex.submit(ctx.tlc, 'RKStage', cfg, workers=2, timeout=1800)
        f_ts = {m: ex.submit(run_timestep, ctx, m) for m in ('newton', 'constant', 'model', 'adaptive')}
        res_tab, res_rk = f_tab.result(), f_rk.result()
        behs = {m: f.result() for m, f in f_ts.items()}

    # ---- Tableau
    check_tableau(ctx, res_tab, tabs)

    # ---- RKStage
    cases = res_rk.recs('CASE')
    if not cases:
        raise MachineryError('RKStage produced no cases')
    for case in cases:
        check_oracle_against_tlc(case)
        replay_rkcase(ctx, case)

    # ---- TimeStep
    for n, beh in enumerate(behs['adaptive'] + behs['model']):
        events = beh['events']
        nontrivial = any(not e['acc'] for e in events) and any(e['acc'] for e in events)
        replay_adaptive(ctx, beh)
        ctx.case((beh['mode'], sig_beh(beh)), nontrivial=nontrivial,
                 sample={'mode': beh['mode'], 'par': beh['par'], 'events': [(e['k'], e['s'], e['acc']) for e in events],
                         'times': beh['times']} if n in (7, 4001) else None)
        if n % 97 == 0:     # the same behaviour through a public method (err_order 1: sdirk21, 2: dirk34 / ros3p)
            q = beh['par']['q']
            pub = {1: [('sdirk21', 'dirk_step')], 2: [('dirk34', 'dirk_step'), ('ros3p', 'rosenbrock_step')]}[q]
            v = pub[(n // 97) % len(pub)]
            replay_adaptive(ctx, beh, via_public=v)
            ctx.case(('public', v[0], sig_beh(beh)), nontrivial=nontrivial)
    for n, beh in enumerate(behs['constant']):
        replay_constant(ctx, beh)
        ctx.case(('constant', json.dumps(beh['par'], sort_keys=True)), nontrivial=len(beh['times']) >= 3,
                 sample={'mode': 'constant', 'par': beh['par'], 'times': beh['times']} if n == 5 else None)
        for v in (('crank_nicolson', 'dirk_step', False), ('sdirk21', 'dirk_step', True), ('ros3p', 'rosenbrock_step', True)):
            if n % 3 == 0:
                replay_constant(ctx, beh, via_public=v)
                ctx.case(('constant-public', v[0], json.dumps(beh['par'], sort_keys=True)), nontrivial=len(beh['times']) >= 3)
    for n, beh in enumerate(behs['newton']):
        replay_newton(ctx, beh, sparse_jac=(n % 2 == 1))
        ctx.case(('newton', json.dumps(beh['par'], sort_keys=True), str(beh['res0']), str(beh['script'])),
                 nontrivial=len(beh['script']) >= 2,
                 sample={'mode': 'newton', 'par': beh['par'], 'script': beh['script'], 'outcome': beh['outcome']} if n == 1000 else None)

    # ---- public entry points (numeric predicates)
    check_public(ctx, tabs)
    check_nonlinear(ctx, tabs)
    ctx.exhaustive = True
    ctx.notes['numeric_predicates'] = ('cases whose key starts with "public:" are numeric predicates evaluated by the '
                                       'harness on the public methods (expected values from the rational stage oracle '
                                       'validated against TLC, or closed forms)')
