"""Child for C01: build a generated form through the public string interface, compile it with the REAL pipeline
(private XDG_CACHE_HOME), assemble on the given space/geometry/fields and dump the result.  argv: in.json out.json"""
import json
import sys
from fractions import Fraction

import numpy as np


def fr(p):
    return float(Fraction(int(p[0]), int(p[1])))


def linear_spline(kvs, c):
    """scalar B-spline function, linear in the parameters: c[0] + sum_k c[k+1] * xi_k (xi in x-first order)"""
    from pyiga import bspline
    import itertools
    d = len(kvs)
    lin = tuple(bspline.KnotVector(np.array([kv.kv[0], kv.kv[0], kv.kv[-1], kv.kv[-1]], dtype=float), 1) for kv in kvs)
    coeffs = np.zeros(d * (2,))
    for mi in itertools.product(range(2), repeat=d):
        xi = [lin[d - 1 - k].kv[0] if mi[d - 1 - k] == 0 else lin[d - 1 - k].kv[-1] for k in range(d)]
        coeffs[mi] = c[0] + sum(c[k + 1] * xi[k] for k in range(d))
    return bspline.BSplineFunc(lin, coeffs)


def main():
    inp, outp = sys.argv[1:3]
    job = json.load(open(inp))
    from pyiga import assemble, bspline
    from harness import vf_gen
    from harness.drivers.c09 import affine_geo
    d = job['dim']
    kvs = tuple(bspline.KnotVector(np.array(k, dtype=float), p) for k, p in zip(job['kvs'], job['ps']))
    A = np.array([[fr(x) for x in row] for row in job['A']])
    t = np.array([fr(x) for x in job['t']])
    geo = affine_geo(kvs, A, t)
    fl = job['fields']
    fC = [fr(x) for x in fl['f']]
    f2C = [fr(x) for x in fl['f2']]
    hC = [fr(x) for x in fl['h']]
    gC = np.array([[fr(x) for x in row] for row in fl['g']])
    AF = np.array([[fr(x) for x in row] for row in fl['A']])
    args = {
        'geo': geo,
        'f': (lambda *X: fC[0] + sum(fC[k + 1] * X[k] for k in range(d))),
        'f2': (lambda *X: f2C[0] + sum(f2C[k + 1] * X[k] for k in range(d))),
        'h': linear_spline(kvs, hC),
        'g': (lambda *X: np.stack([gC[i, 0] + sum(gC[i, k + 1] * X[k] for k in range(d)) + 0 * X[0] for i in range(d)], axis=-1)),
        'A': (lambda *X: np.broadcast_to(AF, np.shape(X[0]) + (d, d)).copy()),
        'c': fr(fl['c']),
        'B': (lambda *X, _B=np.array([[fr(x) for x in row] for row in fl['B']]): np.broadcast_to(_B, np.shape(X[0]) + _B.shape).copy()),
    }
    expr = job.get('expr') or vf_gen.render(job['tokens'], job.get('measure', 'dx'))
    res = {'id': job['id'], 'expr': expr}
    try:
        if job.get('sides'):
            # boundary integrals on several sides, one after the other, with ONE args dict (as a user script would)
            res['sides'] = []
            for ax, side in job['sides']:
                Ms = assemble.assemble(expr, kvs, args=args, boundary=(ax, side))
                Ms = Ms.toarray() if hasattr(Ms, 'toarray') else Ms
                Ms = np.asarray(Ms, dtype=float)
                res['sides'].append(Ms.ravel().tolist())
            M = Ms
        elif job.get('ncu', 1) > 1 or job.get('ncv', 1) > 1:
            bf = ([('u', job['ncu'])] if job['bilinear'] else []) + [('v', job['ncv'])]
            M = assemble.assemble(expr, kvs, args=args, bfuns=bf)
        elif job.get('twospace'):
            kvs1 = tuple(bspline.KnotVector(np.array(k, dtype=float), p) for k, p in zip(job['kvs1'], job['ps1']))
            M = assemble.assemble(expr, (kvs, kvs1), args=args, bfuns=[('u', 1, 0), ('v', 1, 1)])
        else:
            M = assemble.assemble(expr, kvs, args=args)
        if hasattr(M, 'toarray'):
            M = M.toarray()
        M = np.asarray(M, dtype=float)
        res['ok'] = True
        res['shape'] = list(M.shape)
        res['data'] = M.ravel().tolist()
        # route consistency: entry-wise assembly of the same assembler object
        res['finite'] = bool(np.all(np.isfinite(M)))
    except Exception as ex:
        import traceback
        res['ok'] = False
        res['error'] = '%s: %s' % (type(ex).__name__, str(ex)[:300])
        res['trace'] = traceback.format_exc()[-1500:]
    json.dump(res, open(outp, 'w'))


if __name__ == '__main__':
    main()
