"""Child for C13 (fresh interpreter, fixed PYTHONHASHSEED, private XDG_CACHE_HOME, C compiler stubbed).
mode 'tables': measure key classes (vf.hash()), source classes (compile.generate) per mode, shipped freshness,
               source -> module-name map as computed by the real compile_cython_module.
mode 'replay': execute request sequences against the real compile_vform and report the responses."""
import json
import os
import re
import sys
import types


def class_blocks(text):
    """Split assemblers.pyx-style text into {classname: block text}."""
    out = {}
    parts = re.split(r'(?m)^(?=cdef class )', text)
    for p in parts[1:]:
        m = re.match(r'cdef class (\w+)\(', p)
        out[m.group(1)] = p.rstrip() + '\n'
    return out


_TMP = re.compile(r'\b_tmp\d+\b')


def canon(src):
    """Abstraction of a generated source to its class: temporaries are renamed after the (recursively canonical)
    expression that defines them and the statements of each function are compared as a multiset, so that two
    outputs of the generator differing only in the numbering of temporaries / order of independent statements
    (tie-breaking over sets of objects hashed by id()) fall into one class."""
    if src is None:
        return None
    import hashlib
    out = []
    scopes = re.split(r'(?m)^(?=\s*(?:cdef|def|cpdef)\s[^\n]*\):\s*$|^cdef class )', src)
    for sc in scopes:
        defs = {}
        for m in re.finditer(r'(?m)^\s*(_tmp\d+) = (.*)$', sc):
            defs.setdefault(m.group(1), m.group(2))
        memo = {}

        def name(t, depth=0):
            if t in memo:
                return memo[t]
            rhs = defs.get(t)
            if rhs is None or depth > 200:
                memo[t] = t
                return t
            memo[t] = t     # guard against cycles
            c = _TMP.sub(lambda m: name(m.group(0), depth + 1), rhs)
            memo[t] = 'T' + hashlib.md5(c.encode()).hexdigest()[:10]
            return memo[t]
        body = _TMP.sub(lambda m: name(m.group(0)), sc)
        out.append('\n'.join(sorted(l.rstrip() for l in body.splitlines() if l.strip())))
    return '\n@@\n'.join(out)


def main():
    mode, inp, outp = sys.argv[1:4]
    req = json.load(open(inp))
    from harness import forms
    from pyiga import compile as C, vform, assemblers
    from pyiga.codegen import cython as backend
    import pyiga

    recorded = {}       # src -> modname as computed by the real code

    class FakeMod(types.SimpleNamespace):
        pass

    def fake_nocache(src, modname, verbose=False):
        recorded.setdefault(src, set()).add(modname)
        cls = type('CustomAssembler', (), {'src': src, 'modname': modname})
        return FakeMod(CustomAssembler=cls, src=src)

    def fake_compile(src, verbose=False):
        cls = type('CustomAssembler', (), {'src': src, 'modname': None})
        return FakeMod(CustomAssembler=cls, src=src)

    if hasattr(C, '_compile_cython_module_nocache'):
        C._compile_cython_module_nocache = fake_nocache
        have_names = True
    else:
        C.compile_cython_module = fake_compile
        have_names = False

    U = req['universe']
    shipped_classes = {}
    for dim in (2, 3):
        for fn, kw, cls in forms.SHIPPED:
            name = cls + '%dD' % dim
            shipped_classes[name] = getattr(assemblers, name)

    def src_of(desc, od):
        try:
            return canon(C.generate(forms.build(desc), on_demand=bool(od)))
        except Exception as ex:
            return None

    def raw_src_of(desc, od):
        try:
            return C.generate(forms.build(desc), on_demand=bool(od))
        except Exception as ex:
            return None

    if mode == 'tables':
        keys, srcs = [], []
        for d in U:
            try:
                vf = forms.build(d)
                keys.append(vf.hash())
            except Exception:
                keys.append(None)       # rejected by the library at construction
                srcs.append([None, None])
                continue
            srcs.append([src_of(d, 0), src_of(d, 1)])
        # freshness of the shipped assemblers and the generic infrastructure
        shipped_text = open(os.path.join(os.path.dirname(pyiga.__file__), 'assemblers.pyx')).read()
        blocks = class_blocks(shipped_text)
        fresh = {}
        preseed = []
        for dim in (2, 3):
            for fn, kw, cls in forms.SHIPPED:
                name = cls + '%dD' % dim
                vf = getattr(vform, fn)(dim, **kw)
                key = vf.hash()
                code = backend.CodeGen()
                backend.AsmGenerator(getattr(vform, fn)(dim, **kw), name, code).generate()
                gen = code.result()
                gb = class_blocks(gen).get(name, '')
                sb = blocks.get(name, '')
                if gb == sb:
                    verdict = 'identical'
                elif sorted(l.strip() for l in gb.splitlines() if l.strip()) == sorted(l.strip() for l in sb.splitlines() if l.strip()):
                    verdict = 'reordered'
                else:
                    verdict = 'different'
                fresh[name] = verdict
                # the source the generator produces for this form with the standard class name
                std = canon(C.generate(getattr(vform, fn)(dim, **kw), on_demand=False))
                preseed.append({'key': key, 'cls': name, 'std_src': std, 'fresh': verdict})
        generic = '# file generated by generate-assemblers.py\n' + ''.join(backend.generate_generic(dim=k) for k in (1, 2, 3))
        gship = open(os.path.join(os.path.dirname(pyiga.__file__), 'genericasm.pxi')).read()
        fresh['genericasm.pxi'] = 'identical' if generic == gship else (
            'reordered' if sorted(generic.splitlines()) == sorted(gship.splitlines()) else 'different')
        fresh['preamble'] = 'identical' if shipped_text.startswith(backend.preamble()) else 'different'
        # module names via the real compile_cython_module (stubbed build)
        names = {}
        if have_names and not req.get('skip_names'):
            for d in U:
                for s in (raw_src_of(d, 0), raw_src_of(d, 1)):
                    if s is not None and s not in names:
                        m = C.compile_cython_module(s)
                        names[s] = m.CustomAssembler.modname
        json.dump({'keys': keys, 'srcs': srcs, 'preseed': preseed, 'fresh': fresh, 'names': list(names.items()),
                   'have_names': have_names}, open(outp, 'w'))
        return

    if mode == 'objects':
        # behaviours of spec/VFormObjects.tla on ONE real VForm object: 'req' = compile_vform(obj), 'add' = obj.add(term)
        from pyiga import vform as vf

        def build(nterms, base):
            V = vf.VForm(2)
            u, v = V.basisfuns()
            if base == 'mass':
                V.add(u * v * vf.dx)
            else:
                V.add(2 * u * v * vf.dx)
            for k in range(1, nterms):
                V.add((k + 1) * vf.Dx(u, 0) * v * vf.dx)
            return V, u, v
        results = []
        cache = [v for k, v in vars(C).items() if k.endswith('vform_asm_cache') and isinstance(v, dict)]
        initial = dict(cache[0]) if len(cache) == 1 else None
        for job in req['behaviours']:
            if initial is not None:
                cache[0].clear()
                cache[0].update(initial)
            base, beh = job['base'], job['beh']
            V, u, v = build(1, base)
            nreal = 1
            out = []
            for step in beh:
                if step['a'] == 'add':
                    try:
                        V.add((nreal + 1) * vf.Dx(u, 0) * v * vf.dx)
                        nreal += 1
                        out.append({'a': 'add', 'ok': True})
                    except Exception as ex:
                        out.append({'a': 'add', 'ok': False, 'err': type(ex).__name__})
                else:
                    want = canon(C.generate(build(nreal, base)[0]))
                    try:
                        asm = C.compile_vform(V)
                        ship = [n for n, c in shipped_classes.items() if asm is c]
                        if ship:
                            got = canon(C.generate(getattr(vform, [f for f, kw, c in forms.SHIPPED if ship[0].startswith(c)][0])(int(ship[0][-2]))))
                        else:
                            got = canon(getattr(asm, 'src', None))
                        out.append({'a': 'req', 'right': got == want, 'nterms': nreal, 'shipped': bool(ship)})
                    except Exception as ex:
                        out.append({'a': 'req', 'right': False, 'err': type(ex).__name__ + ': ' + str(ex)[:100], 'nterms': nreal})
            results.append(out)
        json.dump({'results': results}, open(outp, 'w'))
        return

    # replay: every sequence starts from the initial cache (shipped assemblers only).  The cache dict is reset
    # in place when it can be found; otherwise each sequence runs in a forked copy of this interpreter.
    def run_seq(seq):
        out = []
        for fidx, od in seq:
            d = U[fidx]
            try:
                asm = C.compile_vform(forms.build(d), on_demand=bool(od))
            except Exception as ex:
                out.append({'kind': 'error', 'type': type(ex).__name__})
                continue
            ship = [n for n, c in shipped_classes.items() if asm is c]
            if ship:
                out.append({'kind': 'shipped', 'cls': ship[0]})
            else:
                out.append({'kind': 'src', 'src': canon(getattr(asm, 'src', None))})
        return out

    cache = [v for k, v in vars(C).items() if k.endswith('vform_asm_cache') and isinstance(v, dict)]
    results = []
    if len(cache) == 1:
        cache = cache[0]
        initial = dict(cache)
        for seq in req['sequences']:
            cache.clear()
            cache.update(initial)
            results.append(run_seq(seq))
    else:
        for seq in req['sequences']:
            r, w = os.pipe()
            pid = os.fork()
            if pid == 0:
                os.close(r)
                os.write(w, json.dumps(run_seq(seq)).encode())
                os._exit(0)
            os.close(w)
            buf = b''
            while True:
                b = os.read(r, 1 << 20)
                if not b:
                    break
                buf += b
            os.close(r)
            os.waitpid(pid, 0)
            results.append(json.loads(buf.decode()) if buf else None)
    json.dump({'results': results}, open(outp, 'w'))


if __name__ == '__main__':
    main()
